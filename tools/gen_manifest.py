#!/usr/bin/env python3
"""Regenerates /verif/MANIFEST.json from the table below (single source of truth)."""
import json, os, sys
ROOT = os.path.dirname(os.path.dirname(os.path.abspath(__file__)))

CHECKS = {
    "C03": dict(level="model_checking", engine="E4 heap_check + E6 real ovnidump/ovniemu", ref="DESIGN.md 5 (C03)",
                technique="exhaustive enumeration: every insert/pop sequence on heap.h up to a length with structural invariants; every set of small streams through the real ovnidump and (with every offset table) the real ovniemu, compared with an independent merge; every directory creation order",
                text="heap.h: all 350k/5.6M sequences of insert(0..2)/pop up to length 9/11 keep a complete tree with correct back-pointers and heap order, pop returns a maximal element and nothing is lost. ovnidump: for every set of <= 3 streams with <= 2/3 events and clocks in {0,1,(5),3e9+1} (incl. empty streams, equal clocks across streams, gaps > 2^31 ns) and 4-7 tiny streams, the output is a permutation of all events, keeps the order inside each stream and is non-decreasing. ovniemu: thread life-cycles on <= 3 streams x loom/host layouts (two looms of one host included) x every offset vector over {-2,0,3}: Paraver times equal corrected time minus the first corrected time. All 6 creation orders of 27 traces give byte-identical output.",
                note="Trusted: lib/obs.py writer, lib/pv.py. <= 7 streams; corrected clocks kept positive; ties across streams may be replayed in any order."),
    "C04": dict(level="model_checking", engine="E3 emu_server + TLC", ref="DESIGN.md 5 (C04+C05)",
                technique="explicit-state model checking: TLC state graph of tla/ThreadCpu.tla walked edge-by-edge and non-edge-by-non-edge on the real emulator (fork-checkpoint server), plus binding pass through the real ovniemu binary",
                text="Every reachable state of the TLA+ thread/CPU model (invariants checked by TLC) is reached on the real emulator and every OH*/OA* event of the alphabet is probed there: an OH* event must be accepted iff it is an edge, the thread rows must display exactly the model state, finish must succeed iff all threads are dead. Exhaustive for <=3 threads, <=2 looms, <=2 physical CPUs per loom.",
                note="Trusted: TLC, the dot-dump reader, lib/pv.py; the server bypasses file loading (bound by replaying all short histories through the real ovniemu); affinity legality is observed not judged; execute-from-dead is outside the space."),
    "C05": dict(level="model_checking", engine="E3 emu_server + TLC", ref="DESIGN.md 5 (C04+C05)",
                technique="explicit-state model checking: TLC state graph of tla/ThreadCpu.tla (invariant: <=1 running thread per physical CPU) walked against the real emulator with local/remote affinity events and same-clock events; binding pass through the real ovniemu",
                text="In every reachable model state every thread-state and affinity event (all CPUs incl. virtual and non-existent, all remote targets incl. other looms) is probed on the real emulator: any event whose successor would put two running threads on a physical CPU must be refused, and after every accepted event all CPU rows (nrunning, TID, PID) must equal the model's. Logical index and physical id are permuted so a confusion changes a row.",
                note="Trusted: as C04. When an affinity event is legal is a soft guard (only oversubscription and the effect on the rows are hard)."),
    "C01": dict(level="model_checking", engine="E1 rt_driver", ref="DESIGN.md 5 (C01)",
                technique="explicit-state search on the real libovni: state = fill level of the staging buffer, every API operation executed in every reachable fill level (small capacities via a wrapper TU, and the last bytes below the real 2 MiB capacity), deviation-bounded short writes; on-disk stream decoded by an independent parser",
                text="Every operation (all payload sizes 0,2..16 in several payload_add splits, every jumbo size the API accepts, flush, mark push/pop/set) is executed in every reachable fill level of the per-thread buffer for capacities 64/97/128/200 and in every fill level of the last 40-100 bytes below the real 2 MiB boundary; 1-2 short writes at every write of every short path. After thread free the stream file must be the 8-byte header followed by exactly the emitted events, byte-identical and in call order, plus OF[/OF] markers only. Built with ASan+UBSan.",
                note="Trusted: lib/obs.py (written from the trace specification), the deterministic interposed clock, the wrapper translation unit that only redefines OVNI_MAX_EV_BUF. Payload bytes follow a few patterns; USE_TSC not covered."),
    "C02": dict(level="model_checking", engine="E1 rt_driver + real ovniemu", ref="DESIGN.md 5 (C02)",
                technique="explicit-state search over buffer fill levels restricted to protocol-conformant programs; every produced trace validated by an independent trace-specification checker and by the real ovniemu -l",
                text="Protocol-conformant programs (proc/thread init, CPU, execute, ops, end, flush, free, fini) are enumerated over every reachable fill level x every operation for small capacities, and over all (fill, jumbo size) pairs that force an automatic flush and leave 1..69 bytes of room at the real capacity. Every stream must tile exactly, have non-decreasing clocks, properly paired non-nested OF[/OF] and complete metadata, and the real emulator must finish ok.",
                note="Trusted: lib/obs.py validator, the emulator binary built from the same tree. Events use the burst MCV whose payload the ovni model ignores."),
    "C06": dict(level="model_checking", engine="E3 emu_server + TLC", ref="DESIGN.md 5 (C06)",
                technique="explicit-state search on the real emulator over the product of the TLC thread/CPU graph and the per-thread value state of one quantity group at a time; displayed thread and CPU rows compared with a reference evaluation after every accepted event (clock steps 1 and 0)",
                text="For each group of per-thread quantities (nOS-V subsystem/idle/task ids, Nanos6 subsystem/thread type/idle/task ids, NODES, TAMPI, OpenMP, MPI function, kernel context switch, ovni flush, user marks) every interleaving state of two threads over the loom's CPUs (incl. virtual, oversubscribed) with every value state is reached, every thread/affinity/value event is probed, and the thread row must show the value exactly while the state satisfies the tracking mode; the CPU row must show the unique running thread's value, else nothing (or the idle default).",
                note="Trusted: tracking-mode table of DESIGN A.3 (cross-checked with the .pcf labels), golden enter values; value-event legality is soft (C08); value depth 1 (2 for two groups in the thorough tier); numeric task ids/type gids are learned from the thread row then required everywhere."),
    "C07": dict(level="model_checking", engine="E4 task_server + E3 emu_server", ref="DESIGN.md 5 (C07)",
                technique="explicit-state search: (A) task.c/body.c driven directly, BFS over a reference body machine for all flag combinations with complete module-state comparison after every accepted operation; (B) nOS-V and Nanos6 task events on the real emulator with verdict and displayed rows compared in every reached state",
                text="(A) For every flag combination (parallel/resurrect/pause/relax-nesting) of three tasks, every operation (execute/end/pause/resume) x 2 threads x 3 tasks x 2 body ids is probed in every state reached within the depth bound; legality must agree with the reference (iff) and the module's bodies and stacks must equal the reference state. (B) On the real emulator: two normal and one parallel nOS-V task / two Nanos6 tasks on two threads, every task event with every task/body id incl. illegal and unknown ones, duplicate and unknown creates, one neutral region; accepted iff body machine and region-stack rule allow; thread and CPU rows show task id, type, body id, app id, rank exactly while a body runs.",
                note="Trusted: DESIGN A.4 reference; body.c is #included by the harness to dump private state; depth bounds 5/7 (module) and 5/8 (end to end); task-type gid learned from the thread row."),
    "C08": dict(level="model_checking", engine="E3 emu_server", ref="DESIGN.md 5 (C08)",
                technique="explicit-state search on the real emulator: state = stacks of open regions of a thread (depth <= 2), every documented event of the model probed in every state against a stack reference; golden value/label table; binding pass through the real ovniemu",
                text="For each of the eight models every nesting of depth <= 2 of its documented enter events is reached on the real emulator and every documented argument-less event is probed there: the matching leave must be accepted, every other leave refused, every non-re-entering enter accepted, and thread and CPU rows must show the documented value of the innermost open region. Also: required thread state (6 states x in/out of CPU), lint on open regions for all enter events, a depth-512 path with the 513th push refused, and .pcf labels.",
                note="Trusted: doc/user/emulation/events.md for the event list and pairing, golden/enter_values.json (frozen after manual review), lib/pv.py. Immediate re-entry of the innermost region may go either way. Depth bound 2 (+ one 512 path)."),
    "C09": dict(level="fault_enumeration", engine="E5 strace kill injection + crash_driver + real ovniemu", ref="DESIGN.md 5 (C09)",
                technique="exhaustive crash-point enumeration: the traced program (real libovni, small staging buffer, owned clock and readdir order) is killed by the syscall tracer before every file-system-changing syscall of the runtime phase; the directory left behind is compared with the flush log and given to the real ovniemu",
                text="Seven scenarios (minimal; explicit+automatic flushes > 8 KiB; first life ending exactly on a 4096-byte copy-chunk boundary followed by a second life; metadata flush in the middle; two threads in three serialisations) x {direct, OVNI_TMPDIR with stream.json or stream.obs enumerated first}: SIGKILL before every mkdir/openat(creating)/write/unlink/rmdir of the runtime phase (kills before calls without effect leave the same state). P1: if ovniemu accepts the directory, every stream it loaded holds all bytes its thread had passed to completed write()s; P2: a stream.json marked finished in the final directory implies the complete stream.obs next to it.",
                note="Trusted: strace (kill at syscall entry, call not executed; occurrences counted per thread, so a few points of a trailing thread are not targetable - counted in the evidence), process-crash model (page cache survives). "),
    "C10": dict(level="fault_enumeration", engine="E5 strace error injection + crash_driver + real ovniemu", ref="DESIGN.md 5 (C10)",
                technique="exhaustive single-fault enumeration: every file-system syscall of the runtime phase fails once with each errno of its class; outcome classified as abort-with-diagnostic or normal return and the final and temporary directories examined",
                text="Scenarios and modes as C09; every runtime-phase mkdir, openat, write, read, close, newfstatat, getdents64, unlink, rmdir fails once with EACCES/ENOSPC/EMFILE/EIO (per class). The process must either be terminated by abort() with a diagnostic on stderr, or return normally leaving a complete final trace (streams byte-identical to the fault-free run, metadata finished, accepted by ovniemu); in both cases no temporary stream file may have been removed while its copy in the final directory is incomplete.",
                note="Trusted: strace error injection (call not executed, returns -errno). Single faults. Short writes are C01's subject."),
    "C11": dict(level="model_checking", engine="E2 sched_driver (cooperative scheduler over real pthreads) + TSan pass", ref="DESIGN.md 5 (C11)",
                technique="stateless model checking of the real libovni: systematic enumeration of all thread schedules with at most 2/3 preemptions (prefix-replay DFS, iterative context bounding), scheduling points at every atomic operation and every shared file-system / stdio call; each execution in a fresh process; failures replayed twice",
                text="Scenarios: three threads racing ovni_proc_init with distinct arguments (the winner traces and finalises); two threads tracing concurrently after init, in direct and OVNI_TMPDIR mode; two threads racing ovni_proc_fini; ovni_thread_init racing ovni_proc_init. For every schedule within the preemption bound: exactly one init/fini returns and the others are refused, a thread admitted by the library completes, and its stream.obs and stream.json in the final directory are byte-identical to what the same script writes when it runs alone. A free-running ThreadSanitizer pass of the same bodies is reported separately (supporting evidence only).",
                note="Trusted: the hand-off scheduler (one runnable thread at a time), sequentially consistent atomics (the library uses seq_cst only). Unsynchronised accesses that lie between scheduling points are only visible to the TSan pass. 2-3 threads, one thread life each."),
    "C12": dict(level="fault_enumeration", engine="E6 real ovniemu + lib/mutate.py", ref="DESIGN.md 5 (C12)",
                technique="exhaustive single-corruption enumeration of four multi-model base traces (every position x every operator), each run through the real ovniemu -l; validity classified independently from the trace specification",
                text="Four valid base traces (nOS-V with jumbo type events, Nanos6, MPI+TAMPI+marks, two looms with ranks + OpenMP/NODES/kernel; each ending like libovni does, with flush markers after the end event) x every single corruption: truncation at every byte offset, swap of every adjacent event pair with different clocks, every header byte x {00,ff,+1}, every event's model byte to a not-required and to an unregistered model, unknown event value, every wrong payload size of size-checked events, jumbo event replaced by a non-jumbo one, removal and 6-8 replacement values of every metadata key, truncated JSON. Whenever the corrupted trace is invalid by the specification, ovniemu must exit non-zero and must not print 'emulation finished ok'.",
                note="Trusted: lib/mutate.py's classification (only corruptions certainly invalid carry a demand), lib/obs.py. Single corruptions."),
    "C13": dict(level="model_checking", engine="E6 real ovniemu + lib/pv.py", ref="DESIGN.md 5 (C13)",
                technique="exhaustive enumeration of a finite configuration x model x history space; every accepted trace is produced by the real ovniemu binary and all .prv/.pcf/.row files are parsed and validated by an independent checker",
                text="Looms 1-2 x processes 1-2 x threads 1-2 x CPUs 1-2 x rank on/off x 8 models x {plain, every documented enter/leave pair on all threads, nesting, tasks with shared and private type labels per process, breakdown -b, flush, affinity/state changes}: for every accepted trace timestamps are non-decreasing, rows within the declared count, header duration = last event time, every event type declared in the .pcf, every non-zero value of a state type labelled, .row names exactly the rows in the documented order.",
                note="Trusted: lib/pv.py and lib/obs.py; the documented row order encoded in checks/c13.py:expected_rows; bounded configuration space (<= 2 looms/processes/threads/CPUs)."),
    "C14": dict(level="model_checking", engine="E4 version_server + real ovniemu", ref="DESIGN.md 5 (C14)",
                technique="exhaustive enumeration of small complete domains on the real code: all (want, have) pairs, all short strings over a 5-letter alphabet against a regular-expression reference, the +-1 version cube per model and all subsets of required models through the real ovniemu",
                text="version_is_compatible on all 729 pairs over {0,1,2}^3; version_parse on all ~20k/98k strings of length <= 6/7 over {0,1,.,-,a} plus a malformed list; ovni_version_check_str on the +-1 cube around the library version (abort intercepted); the real ovniemu on traces requiring every version of the +-1 cube for each of the 8 models, mixed requirements across two streams in both orders, malformed strings, and all subsets of required models x one probe event per model (enabled iff required or -a).",
                note="Trusted: the regular-expression reference of a well-formed version (leading zeros and numbers beyond int are not judged); the emulator binary built from the tree."),
    "C15": dict(level="model_checking", engine="E6 real ovniemu (ASan+UBSan)", ref="DESIGN.md 5 (C15)",
                technique="exhaustive metamorphic enumeration: every distribution of per-process and per-loom attributes over the threads and every enumerated stream order of one system must give byte-identical rows and PRV; every single contradiction at every stream must be refused with a message",
                text="Base system 2 looms x 2 processes x 2 threads x 2 CPUs under 3/5 rank configurations (incl. ranked and unranked looms mixed, rank order opposite to name order, physical ids opposite to indices): every way of carrying app_id and rank on the non-empty thread subsets of each process, every covering family of CPU sub-lists in every array order (ascending and descending), and stream directory creation orders, alone and combined: thread.row, cpu.row, thread.prv and cpu.prv must be byte-identical to the canonical distribution and the rows must follow the documented ordering. Every single contradiction (app id, rank incl. rank 0, nranks, index<->phyid both ways, duplicate TID, no CPUs, no app id, rank missing in one process) at every stream and in both enumeration orders must exit 1 with an error message.",
                note="Trusted: lib/obs.py writer, documented ordering encoded in checks/c13.py:expected_rows. One base system size."),
    "C16": dict(level="model_checking", engine="E6 real ovnisort/ovniemu (ASan+UBSan)", ref="DESIGN.md 5 (C16)",
                technique="exhaustive enumeration of a bounded stream grammar (event encodings x clocks x region placements) through the real ovnisort, compared with the stable sort of the original events; re-sort, check mode and emulation; small look-back windows",
                text="Every stream made of OHx, <= 3-4/4-6 events cycling through plain, 16-byte-payload and jumbo encodings with clocks from a small set, every placement of <= 2 non-nested OU[ OU] regions (incl. empty ones) whose out-of-region events are sorted, and OHe - plus two-stream traces whose second stream sorts to its very beginning - is sorted by the real ovnisort: exit 0, same size, result byte-identical to the stable sort of the original events (so equal-clock order and the untouched prefix are implied), a second run changes nothing, ovnisort -c passes and ovniemu accepts. With look-back sizes 3, 4, 6: exit 0 implies sorted, failure only when the proper position is more than n-3 events back, and with a message.",
                note="Trusted: lib/obs.py; the dead band n-3..n for the look-back window."),
    "C17": dict(level="model_checking", engine="E1 mark_driver + E3 emu_server + real ovniemu", ref="DESIGN.md 5 (C17)",
                technique="exhaustive enumeration of short mark-API programs on the real libovni, of all pairs of per-thread definitions through the real ovniemu, and explicit-state walks of mark events on the real emulator against a stack/scalar reference",
                text="(1) all 8.4k/170k programs of <= 3/4 operations over mark_type/mark_label/push/pop/set (incl. zero and negative values, out-of-range and undefined types, redefinitions): the runtime aborts with a diagnostic iff a documented reason applies, otherwise stream.json holds exactly the definitions and the stream exactly the events; (2) all 169 pairs of per-thread definitions of a type: the emulator refuses iff title, channel type or a label conflict, and merges agreeing labels into type 100 of thread.pcf and cpu.pcf; (3) walks of push/pop/set with values {0,1,2} on a defined stack or single type, a second type and an undefined type, on two threads with pause/cool/warm/resume: mismatched pop, wrong channel kind, undefined type and zero refused; thread row shown while active, CPU row while running.",
                note="Trusted: reference evaluators in checks/c17.py (from doc/user/runtime/mark.md and the API comments); walk depth 4/6."),
    "C18": dict(level="model_checking", engine="E3 emu_server + real ovnievents/ovnidump", ref="DESIGN.md 5 (C18)",
                technique="exhaustive enumeration of all 94x94 printable event codes per model on the real handlers (fork-checkpoint server), bounded context search for every listed event, and complete decode comparison of ovnidump against an independent formatter",
                text="For each of the eight models every printable (category, value) code that ovnievents does not list is injected, without payload and with a 16-byte payload, into a running in-CPU thread with the model enabled and must be refused (exemptions: OB?/OU?, frozen legacy list {6TC}); every listed event must be accepted in some context found by BFS over sequences of <= 3 listed events with arguments from {existing id, new id, 0}; every listed event x 5 argument values must be decoded by the real ovnidump into its description with the values substituted; ovnievents and the documentation must list the same signatures.",
                note="Trusted: golden/legacy_codes.json, the independent printf-subset formatter in checks/c18.py. Context depth <= 3."),
    "C19": dict(level="exploration", engine="E6 tools with ASan+UBSan and exact-size heap stream buffers", ref="DESIGN.md 5 (C19)",
                technique="exhaustive enumeration of a stated mutation and grammar space (not sampling): every single structure-aware corruption of four base traces and every stream of 2/3 atoms from 40 valid/malformed event encodings, through ovniemu, ovnidump, ovnitop and ovnisort built with AddressSanitizer+UBSan; stream.c compiled with -Dmmap=verif_mmap so the stream lives in an exact-size heap buffer",
                text="For every case of the space each of the four tools must terminate within 8 s with exit status 0 or 1, without signal and without sanitizer report. The space: C12's operators plus all flag bytes, clock bytes, 13 abusive jumbo size fields, cut/unterminated jumbo data, events stripped of payload, phantom payloads, abusive loom_cpus shapes and metadata values, non-object/deeply nested JSON, missing/empty stream.obs, and all 1600 (quick) / 24000 (thorough) atom sequences after a valid prefix. The claim covers this space, not all byte strings.",
                note="Trusted: ASan/UBSan (signed-integer-overflow excluded: arithmetic on garbage clocks is outside the property), the -Dmmap wrapper (harness/mmap_heap.c). die()->abort() counts as a crash."),
    "C20": dict(level="model_checking", engine="E4 sort_check + E3 emu_server -b", ref="DESIGN.md 5 (C20)",
                technique="exhaustive in-process enumeration of sort_replace inputs and of the sort module's input-vector graph (real bay, single and simultaneous changes), plus breadth-first explicit-state search of the real emulator with -b comparing breakdown rows with the sorted per-CPU values",
                text="sort_replace on every sorted array of length <= 5/7 over {0..3} x every replacement (guards detect writes outside the array); the sort module on every input vector of 2-4(5) inputs over {null,1,2,3} x every set of 1..k simultaneous input changes: outputs equal the sorted inputs, changed outputs are emitted and unchanged ones not rewritten; end to end for nOS-V and Nanos6 with -b on 3 physical CPUs: all implementation states within depth 5/7 of affinity changes, pause/resume, task execute/end/pause/resume of two task types, a subsystem enter/leave and progress states: the breakdown rows must be the non-decreasing list of the per-CPU values derived from cpu.prv.",
                note="Trusted: the rule deriving a CPU's breakdown value from its displayed rows (property statement); a paused task with the body region open may show nothing or the subsystem. Depth-bounded."),
}

ORDER = ["C%02d" % i for i in range(1, 21)]


def main():
    props = [json.loads(l) for l in open(os.path.join(ROOT, "properties.jsonl"))]
    ids = [p["id"] for p in props]
    checks = []
    for pid in ORDER:
        if pid not in CHECKS:
            continue
        c = CHECKS[pid]
        checks.append({
            "property_id": pid,
            "quick_cmd": "python3 bin/verif check %s --tier quick" % pid,
            "thorough_cmd": "python3 bin/verif check %s --tier thorough" % pid,
            "evidence_file": "evidence/%s.json" % pid,
            "replay_cmd_template": "python3 bin/verif replay {path}",
            "engine": c["engine"],
            "level_claimed": {"category": c["level"], "text": c["text"], "design_ref": c["ref"]},
            "level_note": c["note"],
            "technique": c["technique"],
        })
    na = [{"property_id": i, "reason": "check not built yet in this round (planned, see DESIGN.md section 5)"}
          for i in ids if i not in CHECKS]
    m = {
        "version": 1,
        "setup_cmd": "python3 bin/verif setup",
        "hooks": {"guard": "OVNI_VERIF",
                  "enable": "none needed: harnesses use wrapper translation units (#include of the repository source after redefining a macro) and link-level interposition; no guarded source change exists",
                  "baseline_off_cmd": "cmake --build /repo/_build && ctest --test-dir /repo/_build -j8 --timeout 900",
                  "source_commits": [], "add_only": True},
        "engines": [
            {"name": "E3 emu_server", "path": "harness/emu_server.c", "serves_properties": ["C04", "C05", "C06", "C07", "C08", "C17", "C18", "C20"],
             "kind_free_text": "the unmodified emulator as a fork-checkpoint exploration server; Python BFS over (model state, implementation hash)"},
            {"name": "E1 rt_driver", "path": "harness/rt_driver.c", "serves_properties": ["C01", "C02"],
             "kind_free_text": "libovni compiled into the driver from the working tree (OVNI_MAX_EV_BUF overridable), interposed clock/write/abort; Python enumerates programs over buffer fill levels"},
            {"name": "E4 task_server", "path": "harness/task_server.c", "serves_properties": ["C07"],
             "kind_free_text": "task.c/body.c driven in-process, one history per line, full private state dumped"},
            {"name": "E5 crash_driver + strace", "path": "harness/crash_driver.c", "serves_properties": ["C09", "C10"],
             "kind_free_text": "traced program with libovni compiled in; strace injects SIGKILL or an errno at the N-th occurrence of a syscall"},
            {"name": "E2 sched_driver", "path": "harness/sched_driver.c", "serves_properties": ["C11"],
             "kind_free_text": "libovni compiled into a harness whose atomics and shared libc calls yield to a cooperative scheduler; Python DFS over choice prefixes with a preemption bound"},
            {"name": "TLC", "path": "tla/", "serves_properties": ["C04", "C05", "C06"],
             "kind_free_text": "TLA+ reference models; complete labelled state graph dumped and replayed against the implementation"},
        ],
        "checks": checks,
        "notes": "All checks rebuild their harnesses from /repo's working tree (content-hash cache under build/). Exit 0 held, 1 VIOLATION, 2 infrastructure error.",
        "not_applicable": na,
    }
    json.dump(m, open(os.path.join(ROOT, "MANIFEST.json"), "w"), indent=1)
    print("MANIFEST.json: %d checks, %d not claimed" % (len(checks), len(na)))


if __name__ == "__main__":
    main()
