#!/usr/bin/env python3
"""Regenerates /verif/MANIFEST.json from the table below (single source of truth)."""
import json, os, sys
ROOT = os.path.dirname(os.path.dirname(os.path.abspath(__file__)))

CHECKS = {
    "C04": dict(level="model_checking", engine="E3 emu_server + TLC", ref="DESIGN.md 5 (C04+C05)",
                technique="explicit-state model checking: TLC state graph of tla/ThreadCpu.tla walked edge-by-edge and non-edge-by-non-edge on the real emulator (fork-checkpoint server), plus binding pass through the real ovniemu binary",
                text="Every reachable state of the TLA+ thread/CPU model (invariants checked by TLC) is reached on the real emulator and every OH*/OA* event of the alphabet is probed there: an OH* event must be accepted iff it is an edge, the thread rows must display exactly the model state, finish must succeed iff all threads are dead. Exhaustive for <=3 threads, <=2 looms, <=2 physical CPUs per loom.",
                note="Trusted: TLC, the dot-dump reader, lib/pv.py; the server bypasses file loading (bound by replaying all short histories through the real ovniemu); affinity legality is observed not judged; execute-from-dead is outside the space."),
    "C05": dict(level="model_checking", engine="E3 emu_server + TLC", ref="DESIGN.md 5 (C04+C05)",
                technique="explicit-state model checking: TLC state graph of tla/ThreadCpu.tla (invariant: <=1 running thread per physical CPU) walked against the real emulator with local/remote affinity events and same-clock events; binding pass through the real ovniemu",
                text="In every reachable model state every thread-state and affinity event (all CPUs incl. virtual and non-existent, all remote targets incl. other looms) is probed on the real emulator: any event whose successor would put two running threads on a physical CPU must be refused, and after every accepted event all CPU rows (nrunning, TID, PID) must equal the model's. Logical index and physical id are permuted so a confusion changes a row.",
                note="Trusted: as C04. When an affinity event is legal is a soft guard (only oversubscription and the effect on the rows are hard)."),
    "C08": dict(level="model_checking", engine="E3 emu_server", ref="DESIGN.md 5 (C08)",
                technique="explicit-state search on the real emulator: state = stacks of open regions of a thread (depth <= 2), every documented event of the model probed in every state against a stack reference; golden value/label table; binding pass through the real ovniemu",
                text="For each of the eight models every nesting of depth <= 2 of its documented enter events is reached on the real emulator and every documented argument-less event is probed there: the matching leave must be accepted, every other leave refused, every non-re-entering enter accepted, and thread and CPU rows must show the documented value of the innermost open region. Also: required thread state (6 states x in/out of CPU), lint on open regions for all enter events, a depth-512 path with the 513th push refused, and .pcf labels.",
                note="Trusted: doc/user/emulation/events.md for the event list and pairing, golden/enter_values.json (frozen after manual review), lib/pv.py. Immediate re-entry of the innermost region may go either way. Depth bound 2 (+ one 512 path)."),
}

ORDER = ["C%02d" % i for i in range(1, 21)]


def main():
    props = [json.loads(l) for l in open(os.path.join(ROOT, "properties.jsonl"))]
    ids = [p["id"] for p in props]
    checks = []
    for pid in ORDER:
        if pid not in CHECKS:
            continue
        c = CHECKS[pid]
        checks.append({
            "property_id": pid,
            "quick_cmd": "python3 bin/verif check %s --tier quick" % pid,
            "thorough_cmd": "python3 bin/verif check %s --tier thorough" % pid,
            "evidence_file": "evidence/%s.json" % pid,
            "replay_cmd_template": "python3 bin/verif replay {path}",
            "engine": c["engine"],
            "level_claimed": {"category": c["level"], "text": c["text"], "design_ref": c["ref"]},
            "level_note": c["note"],
            "technique": c["technique"],
        })
    na = [{"property_id": i, "reason": "check not built yet in this round (planned, see DESIGN.md section 5)"}
          for i in ids if i not in CHECKS]
    m = {
        "version": 1,
        "setup_cmd": "python3 bin/verif setup",
        "hooks": {"guard": "OVNI_VERIF",
                  "enable": "none needed: harnesses use wrapper translation units (#include of the repository source after redefining a macro) and link-level interposition; no guarded source change exists",
                  "baseline_off_cmd": "cmake --build /repo/_build && ctest --test-dir /repo/_build -j8 --timeout 900",
                  "source_commits": [], "add_only": True},
        "engines": [
            {"name": "E3 emu_server", "path": "harness/emu_server.c", "serves_properties": ["C04", "C05", "C08"],
             "kind_free_text": "the unmodified emulator as a fork-checkpoint exploration server; Python BFS over (model state, implementation hash)"},
            {"name": "TLC", "path": "tla/", "serves_properties": ["C04", "C05"],
             "kind_free_text": "TLA+ reference models; complete labelled state graph dumped and replayed against the implementation"},
        ],
        "checks": checks,
        "notes": "All checks rebuild their harnesses from /repo's working tree (content-hash cache under build/). Exit 0 held, 1 VIOLATION, 2 infrastructure error.",
        "not_applicable": na,
    }
    json.dump(m, open(os.path.join(ROOT, "MANIFEST.json"), "w"), indent=1)
    print("MANIFEST.json: %d checks, %d not claimed" % (len(checks), len(na)))


if __name__ == "__main__":
    main()
