#!/usr/bin/env python3
"""One-off: observe, on the current tree, the (PRV type, value, label) every
documented enter event produces on the thread timeline, for manual review and
freezing as golden/enter_values.json."""
import sys, os, json
sys.path.insert(0, os.path.dirname(os.path.dirname(os.path.abspath(__file__))))
from lib.common import Build, Scratch
from lib import emusrv, catalog, pv
from lib.emusrv import Ev, Fin, i32, i64

b = Build()
exe = b.harness("plain", "emu_server", ["emu_server.c"])
cat = catalog.load_events()
req = {m: d["version"] for m, d in cat.items()}
sc = Scratch("golden")
spec = [{"name": "A", "cpus": [(0, 0)], "procs": [{"pid": 100, "threads": [101]}]}]
td = emusrv.System(spec, require=req).write(sc.sub("t"))
srv = emusrv.EmuServer(exe, td, ["-l"])
h0 = [Ev(0, "OHx", i32(0, 101) + i64(0))]
out = {}
_, r = srv.expand(h0 + [Ev(0, "OHe")], [Fin(0)])
pcf = pv.parse_pcf(r[0].files["thread.pcf"])
for m, d in cat.items():
    for (a, z) in catalog.pairs(d["events"]):
        if a.args:
            continue
        _, res = srv.expand(h0, [Ev(0, a.mcv)])
        r = res[0]
        ent = {"leave": z.mcv, "desc": a.desc, "accepted": r.ok}
        if r.ok:
            vals = [(ty, val) for (n, row, tm, ty, val) in r.lines if n == "thread"]
            ent["thread_lines"] = vals
            if len(vals) == 1:
                ty, val = vals[0]
                ent["type"], ent["value"] = ty, val
                ent["type_label"] = pcf.get(ty, ("?", {}))[0]
                ent["label"] = pcf.get(ty, ("?", {}))[1].get(val)
        out[a.mcv] = ent
srv.close()
sc.cleanup()
json.dump(out, sys.stdout, indent=1)
