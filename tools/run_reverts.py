#!/usr/bin/env python3
"""For every `fix:` commit of /repo: re-introduce the defect (reverse-apply the commit), run the
check of the property it belongs to, expect a VIOLATION, restore.  Writes seeded/REVERTS.md."""
import json, os, re, subprocess, sys
ROOT = os.path.dirname(os.path.dirname(os.path.abspath(__file__)))


def sh(cmd):
    return subprocess.run(cmd, shell=True, stdout=subprocess.PIPE, stderr=subprocess.STDOUT).stdout.decode("latin1")


k = json.load(open(os.path.join(ROOT, "known_findings.json")))["findings"]
rows = []
seen = set()
for f in k:
    if f["status"] != "fixed":
        continue
    c, prop = f["commit"], f["property"]
    if (c, prop) in seen:
        continue
    seen.add((c, prop))
    sh("git -C /repo checkout -- .")
    o = sh("git -C /repo diff %s %s^ -- src include | git -C /repo apply" % (c, c))
    if o.strip():
        rows.append((f["id"], prop, c, "reverse patch does not apply: " + o.strip()[:100]))
        continue
    out = sh("timeout 1200 python3 %s/bin/verif check %s --tier quick" % (ROOT, prop))
    sh("git -C /repo checkout -- .")
    m = re.search(r"^VIOLATION.*\n  (.*)$", out, re.M)
    rows.append((f["id"], prop, c, ("DETECTED: " + m.group(1)[:160]) if m else "NOT DETECTED"))
    print(rows[-1]); sys.stdout.flush()
with open(os.path.join(ROOT, "seeded", "REVERTS.md"), "w") as fh:
    fh.write("# Re-introducing each repaired defect (reverse of the `fix:` commit) and running the quick check\n\n| finding | property | commit | result |\n|---|---|---|---|\n")
    for r in rows:
        fh.write("| %s | %s | %s | %s |\n" % r)
