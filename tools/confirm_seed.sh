#!/bin/bash
# usage: tools/confirm_seed.sh <ID> [round]  -- independently confirms /tmp/seed-<ID>/patchN.diff in worktree /tmp/wt-<ID>
# and, if confirmed, stores it as /verif/seeded/<ID>-<N>/
set -u
ID=$1; ROUND=${2:-1}
if [ "$ROUND" = "9" ]; then WT=/tmp/wt9-$ID; SD=/tmp/seed9-$ID; OFF=16; elif [ "$ROUND" = "8" ]; then WT=/tmp/wt8-$ID; SD=/tmp/seed8-$ID; OFF=14; elif [ "$ROUND" = "7" ]; then WT=/tmp/wt7-$ID; SD=/tmp/seed7-$ID; OFF=12; elif [ "$ROUND" = "6" ]; then WT=/tmp/wt6-$ID; SD=/tmp/seed6-$ID; OFF=10; elif [ "$ROUND" = "5" ]; then WT=/tmp/wt5-$ID; SD=/tmp/seed5-$ID; OFF=8; elif [ "$ROUND" = "4" ]; then WT=/tmp/wt4-$ID; SD=/tmp/seed4-$ID; OFF=6; elif [ "$ROUND" = "3" ]; then WT=/tmp/wt3-$ID; SD=/tmp/seed3-$ID; OFF=4; elif [ "$ROUND" = "2" ]; then WT=/tmp/wt2-$ID; SD=/tmp/seed2-$ID; OFF=2; else WT=/tmp/wt-$ID; SD=/tmp/seed-$ID; OFF=0; fi
[ -d $WT ] || git -C /repo worktree add -f $WT HEAD >/dev/null 2>&1
cd $WT && git checkout -q -- . 
build() { cmake -G Ninja -B $WT/_build -S $WT -DCMAKE_BUILD_TYPE=RelWithDebInfo >/dev/null 2>&1 && cmake --build $WT/_build -j16 2>&1 | tail -3 | grep -iE "error|warning" ; return ${PIPESTATUS[0]}; }
suite() { ctest --test-dir $WT/_build -j8 --timeout 900 2>&1 | grep -E "tests passed|tests failed" ; }
for n in 1 2; do
  P=$SD/patch$n.diff; D=$SD/demo$n
  [ -f $P ] || continue
  echo "=== $ID patch$n"
  git -C $WT checkout -q -- . ; build; 
  bash $D/run.sh $WT $WT/_build >/tmp/confirm_${ID}_${n}.clean 2>&1; c=$?
  git -C $WT apply $P || { echo "APPLY FAILED"; continue; }
  build; s=$(suite); 
  bash $D/run.sh $WT $WT/_build >/tmp/confirm_${ID}_${n}.patched 2>&1; p=$?
  git -C $WT checkout -q -- .
  echo "clean demo exit=$c ; patched suite: $s ; patched demo exit=$p"
  if [ $c -eq 0 ] && [ $p -ne 0 ] && echo "$s" | grep -q "100% tests passed"; then
     T=/verif/seeded/$ID-$((n+OFF)); rm -rf $T; mkdir -p $T; cp $P $T/patch.diff; cp -r $D $T/demo; cp $SD/notes.md $T/notes.md 2>/dev/null
     echo "CONFIRMED -> $T"
  else echo "NOT CONFIRMED"; fi
done
build >/dev/null
