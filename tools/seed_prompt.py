#!/usr/bin/env python3
"""Print the brief given to an independent sub-agent that is asked for property-breaking changes.
usage: tools/seed_prompt.py <ID> <round>     (nothing from /verif except the property text goes into it)"""
import json, sys, subprocess, glob, os, re
ID, RND = sys.argv[1], sys.argv[2]
here = os.path.dirname(os.path.dirname(os.path.abspath(__file__)))
prop = [json.loads(l) for l in open(os.path.join(here, 'properties.jsonl')) if json.loads(l)['id'] == ID][0]
sites = {}
for d in sorted(glob.glob(os.path.join(here, 'seeded', ID + '-*'))):
    f = os.path.join(d, 'patch-ported.diff')
    if not os.path.exists(f):
        f = os.path.join(d, 'patch.diff')
    cur = None
    for l in open(f, errors='replace'):
        if l.startswith('+++ b/'):
            cur = l[6:].strip()
        m = re.match(r'^@@[^@]*@@ ?(.*)$', l)
        if m and cur:
            fn = re.sub(r'\(.*', '', m.group(1)).split()
            sites.setdefault(cur, set()).add(fn[-1] if fn else '?')
sitetxt = '; '.join('%s: %s' % (f, ', '.join(sorted(s))) for f, s in sorted(sites.items()))
WT, SD = '/tmp/wt%s-%s' % (RND, ID), '/tmp/seed%s-%s' % (RND, ID)
# from round 7 on: functions of the property's anchor files that no earlier change has touched
UNTOUCHED = ""
if int(RND) >= 7:
    repo = os.environ.get("VERIF_REPO", "/repo")
    alls = {}
    for d in sorted(glob.glob(os.path.join(here, 'seeded', 'C*-*'))):
        f = os.path.join(d, 'patch-ported.diff')
        if not os.path.exists(f):
            f = os.path.join(d, 'patch.diff')
        cur = None
        for l in open(f, errors='replace'):
            if l.startswith('+++ b/'):
                cur = l[6:].strip()
            m = re.match(r'^@@[^@]*@@ ?(.*)$', l)
            if m and cur:
                fn = re.sub(r'\(.*', '', m.group(1)).split()
                if fn:
                    alls.setdefault(cur, set()).add(fn[-1])
    files = []
    for pat in prop.get('anchors', {}).get('files', []):
        files += [os.path.relpath(x, repo) for x in glob.glob(os.path.join(repo, pat))]
    parts = []
    for f in sorted(set(files)):
        if not f.endswith(('.c', '.h')) or 'parson' in f:
            continue
        names = set(re.findall(r'^([a-z_][a-z0-9_]*)\s*\(', open(os.path.join(repo, f), errors='replace').read(), re.M))
        names -= {'if', 'for', 'while', 'switch', 'return', 'sizeof', 'main', 'usage'}
        u = sorted(n for n in names - alls.get(f, set()) if not re.match(r'.*_(get|name)(_|$)', n))
        if u:
            parts.append('%s: %s' % (f, ', '.join(u)))
    if parts:
        UNTOUCHED = ("At least ONE of your two patches must make its change inside one of the following functions, which no earlier change has touched "
                     "(the other patch is free; callers and callees of these functions count too if the listed one is where the behaviour is decided): "
                     + '; '.join(parts) + ".\n")
HINT5 = "Triggers that are especially welcome: three or more threads / processes / looms; something that only shows after many repetitions (a counter, a dynamic array or hash table growing, a wrap-around); the cooperation of two sites; rarely combined options (ovniemu -a -b -c -l -d, OVNI_TMPDIR, ovnisort -n, clock offset tables); state left behind by an earlier run or emulation; integer edges; the interplay of two event models; the less used tools."
HINT6 = "Assume that anything which shows within a handful of events on two or three threads of one process, with default options, a healthy file system and small values, is already caught. Look elsewhere: histories of eight or more events in which an intermediate state matters (something is set up early and misused late); events of two or three different models interleaved in one thread or trace (task models together with MPI, marks, kernel context switches, flushes); what the environment may answer (short or interrupted reads and writes, EEXIST, ENOENT, directory order, a file that already exists or is a symbolic link, a full disk at one particular call); behaviour after the first error was reported (is the exit status still non-zero, are later streams still checked); finish and clean-up paths; the outputs other than thread.prv (cpu.prv, the .pcf and .row files, the breakdown traces); numeric edges (values of 2^31 and beyond, zero, negative, very long names and labels); many participants (dozens of threads, CPUs, looms, task types); and changes split over two sites of which each alone is harmless."
HINT = HINT6 if int(RND) >= 6 else HINT5
if int(RND) >= 7:
    HINT = HINT5 + " " + HINT6
if int(RND) >= 8:
    HINT += " Prefer changes whose effect is a plausible-looking but wrong result (a value in the wrong row or at the wrong time, an event or byte missing or duplicated, a trace accepted that should be refused) over changes that make a tool crash or refuse everything: crashes and blanket refusals are found quickly."
if int(RND) >= 9:
    HINT += " Also welcome in this round: what happens on the SECOND use of something (a second life of a thread after its end event, a second ovni_thread_init, a second emulation or sort of the same directory, the second process or loom of a host, the second table entry with the same key); documented but non-default options and environment variables; the secondary outputs and tools (ovnitop, ovnievents, ovniver, the .row / .pcf writers, the Paraver time header, the sorting and ordering helpers); conversions at module boundaries (signed / unsigned, 32 / 64 bits, double / integer, string / number); and error paths that must keep the exit status non-zero after the first problem was reported."
print(f"""You are helping to test how well a verification effort for the C project bsc-pm/ovni detects regressions. ovni is a tracing runtime (libovni, src/rt/ovni.c) that writes per-thread binary event streams, plus an emulator (ovniemu) and tools (ovnidump, ovnitop, ovnisort, ovnievents, ovniver; src/emu) that replay them into Paraver traces. Documentation is under doc/.

You have your own scratch git worktree of the repository at {WT}. Work only there and under {SD} (create it). Never read or write /repo or /verif. There is no network.
Build:  cmake -G Ninja -B {WT}/_build -S {WT} -DCMAKE_BUILD_TYPE=RelWithDebInfo >/dev/null && cmake --build {WT}/_build -j4
Suite:  ctest --test-dir {WT}/_build -j4 --timeout 900      (88 tests; all pass on the clean tree)
Other agents are using the machine at the same time: use at most -j4.

THE PROPERTY ({ID}: {prop.get('title','')})
{prop['statement']}
Quantified over: {prop['quantifier']['text']}

YOUR TASK
Produce TWO independent changes (patch1, patch2) to the sources under src/ or include/ that each break this property, while
 (a) compiling without new warnings with the recipe above,
 (b) leaving all 88 tests of the suite passing, and
 (c) looking like a realistic slip a developer could make (a refactoring that loses a case, an off-by-one, the wrong variable, a missing reset, two operations in the wrong order, a cached value that goes stale, a narrowed integer type, a condition that is right for the common configuration only) - not sabotage with magic constants.
Each change must need something SPECIFIC to manifest - a particular interleaving, a crash or fault at a particular point, a multi-step sequence of operations, an unusual input or configuration, or two cooperating code sites that each look fine alone - and must NOT be exposed at once by ordinary use. {HINT}
Earlier rounds already used changes in these places - choose different mechanisms and, where you can, different functions: {sitetxt}.
{UNTOUCHED}The two patches must be independent of each other (each applies alone to the clean tree) and should use different mechanisms.

DELIVERABLES in {SD}/
 patch1.diff, patch2.diff   - `git diff` taken at the worktree root (must apply with `git apply` to the clean tree)
 demo1/run.sh, demo2/run.sh - called as `bash run.sh <worktree> <builddir>`; uses what is already built in <builddir> (it may compile small helper programs against <builddir>/include, <worktree>/src and -L<builddir>/src/rt -lovni); exits 0 when the property holds and non-zero when it is violated, i.e. 0 on the clean tree and non-zero with the patch. Deterministic, under 60 s, works only inside a `mktemp -d` directory that it removes; helper sources live next to run.sh.
 notes.md - per patch: what it changes, why the suite does not notice, exactly what is needed for it to manifest. Then a section "Observations about the unmodified tree": anything where the UNMODIFIED code already seems to violate the property - describe it with a reproducer; do not patch it.

Before you finish, verify yourself for each patch: clean tree -> demo exits 0; patched tree -> builds without warnings, 88/88 tests pass, demo exits non-zero. Leave the worktree clean at the end (`git -C {WT} checkout -- .`) with _build rebuilt from the clean tree. Reply with a short summary only (what each patch does, what it needs to manifest, and your observations about the unmodified tree).""")
