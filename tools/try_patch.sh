#!/bin/bash
# usage: tools/try_patch.sh <patch.diff> <PROP> [tier]   -- applies to /repo, runs the check, reverts
set -u
P=$1; ID=$2; TIER=${3:-quick}
git -C /repo apply "$P" || { echo "patch does not apply"; exit 3; }
timeout ${TRY_TIMEOUT:-900} python3 /verif/bin/verif check $ID --tier $TIER > /tmp/try_$ID.out 2>&1
rc=$?
git -C /repo checkout -- . 
grep -a -E "^VIOLATION|^KNOWN|^INFRA|tier=" /tmp/try_$ID.out | head -8
grep -a -A1 "^VIOLATION" /tmp/try_$ID.out | grep -a -v "^VIOLATION" | head -3
echo "exit=$rc"
