#!/usr/bin/env python3
"""Fills "needs_to_manifest" in seeded/<id>/meta.json from the seed's notes.md (the n-th 'needed to manifest' /
'trigger' paragraph belongs to the n-th patch of that agent) or from the hand-written table below."""
import os, re, json, glob, sys
ROOT = os.path.dirname(os.path.dirname(os.path.abspath(__file__)))
HEAD = re.compile(r"(what is needed to manifest|needed to manifest|needs to manifest|what it needs to manifest|exactly what is needed|"
                  r"^needs[:,]|^what it needs|\*\*trigger[^*]*\*\*|^#+\s*(trigger|what is needed)[^\n]*|how it manifests|needed for it to manifest|to manifest)", re.I | re.M)
MANUAL = {}
mp = os.path.join(ROOT, "seeded", "needs_manual.json")
if os.path.exists(mp):
    MANUAL = json.load(open(mp))


def paragraphs(txt):
    out = []
    for m in HEAD.finditer(txt):
        rest = txt[m.start():]
        para = re.split(r"\n\s*\n(?!\s*[-*] )", rest, 1)[0]
        para = re.sub(r"\s+", " ", para).strip()
        if len(para) > 60 and (not out or para[:80] != out[-1][:80]):
            out.append(para[:700])
    return out


def main():
    miss = []
    for d in sorted(glob.glob(os.path.join(ROOT, "seeded", "C*-*"))):
        sid = os.path.basename(d)
        n = int(sid.split("-")[1])
        k = (n - 1) % 2
        mpth = os.path.join(d, "meta.json")
        meta = json.load(open(mpth)) if os.path.exists(mpth) else {"id": sid, "property": sid.split("-")[0]}
        need = MANUAL.get(sid)
        if not need:
            notes = os.path.join(d, "notes.md")
            ps = paragraphs(open(notes).read()) if os.path.exists(notes) else []
            if len(ps) >= 2:
                # split the paragraphs between the two patches by position of the "patch 2" / "change 2" heading
                txt = open(notes).read()
                m2 = re.search(r"^#+[^\n]*(patch ?2|change ?2|patch2|second change)", txt, re.I | re.M)
                if m2:
                    first = [p for p in paragraphs(txt[:m2.start()])]
                    second = [p for p in paragraphs(txt[m2.start():])]
                    cand = (first, second)[k]
                    need = cand[0] if cand else None
                else:
                    need = ps[k] if k < len(ps) else None
            elif len(ps) == 1 and k == 0:
                need = ps[0]
        if not need:
            miss.append(sid)
            continue
        meta["needs_to_manifest"] = need
        json.dump(meta, open(mpth, "w"), indent=1)
    print("no 'needs' text found for:", miss)


if __name__ == "__main__":
    main()
