#!/bin/bash
# Re-confirms every seeded patch on the CURRENT /repo HEAD (with the fix: commits): the patch (or its
# ported version) must still apply, build, pass the suite and make its own demo fail.
WT=/tmp/wt-head
git -C /repo worktree remove --force $WT 2>/dev/null
git -C /repo worktree add -f $WT HEAD >/dev/null 2>&1
cmake -G Ninja -B $WT/_build -S $WT -DCMAKE_BUILD_TYPE=RelWithDebInfo >/dev/null 2>&1 && cmake --build $WT/_build -j16 >/dev/null 2>&1
for d in /verif/seeded/C*-*; do
  id=$(basename $d); P=$d/patch.diff; [ -f $d/patch-ported.diff ] && P=$d/patch-ported.diff
  git -C $WT checkout -q -- .
  cmake --build $WT/_build -j16 >/dev/null 2>&1
  bash $d/demo/run.sh $WT $WT/_build >/dev/null 2>&1; c=$?
  if ! git -C $WT apply $P 2>/dev/null; then echo "$id: DOES-NOT-APPLY (clean demo exit=$c)"; continue; fi
  if ! cmake --build $WT/_build -j16 >/dev/null 2>&1; then echo "$id: BUILD-FAILS"; continue; fi
  s=$(ctest --test-dir $WT/_build -j8 --timeout 900 2>&1 | grep -E "tests passed")
  bash $d/demo/run.sh $WT $WT/_build >/dev/null 2>&1; p=$?
  echo "$id: clean=$c patched=$p suite=[$s] patch=$(basename $P)"
done
git -C /repo worktree remove --force $WT
