#!/usr/bin/env python3
"""Applies every seeded change to /repo, runs the listed checks (quick tier), reverts, and records
the outcome in seeded/<id>/meta.json and seeded/RESULTS.md."""
import os, sys, json, subprocess, glob, re
ROOT = os.path.dirname(os.path.dirname(os.path.abspath(__file__)))
# default: /repo itself (apply, check, checkout); SEED_REPO=<scratch worktree of /repo's HEAD> lets the matrix run beside other work
R = os.environ.get("SEED_REPO", "/repo")
# which checks are expected to see a seed (first = own property); derived from what the change breaks
ALSO = {"C01-2": ["C11"], "C02-2": ["C01"], "C09-1": ["C04"], "C09-2": ["C12"], "C10-1": ["C01"], "C19-2": ["C07"], "C13-1": [], "C06-2": ["C05"],
        "C01-3": ["C11"], "C08-3": ["C07"], "C09-4": ["C10"], "C10-3": ["C01", "C02"], "C13-3": ["C15"], "C18-3": ["C08"],
        "C01-5": ["C11"], "C01-6": ["C10"], "C02-5": ["C03"], "C05-6": ["C15"], "C08-5": ["C06", "C17"], "C10-5": ["C01", "C02"]}
TIER = {"C10-1/C01": "quick"}


def sh(cmd, **kw):
    return subprocess.run(cmd, shell=True, stdout=subprocess.PIPE, stderr=subprocess.STDOUT, **kw).stdout.decode("latin1")


def main():
    only = sys.argv[1:]
    rows = []
    for d in sorted(glob.glob(os.path.join(ROOT, "seeded", "C*-*"))):
        sid = os.path.basename(d)
        if only and sid not in only:
            continue
        prop = sid.split("-")[0]
        patch = os.path.join(d, "patch-ported.diff") if os.path.exists(os.path.join(d, "patch-ported.diff")) else os.path.join(d, "patch.diff")
        meta_p = os.path.join(d, "meta.json")
        meta = json.load(open(meta_p)) if os.path.exists(meta_p) else {}
        notes = open(os.path.join(d, "notes.md")).read() if os.path.exists(os.path.join(d, "notes.md")) else ""
        meta.update({"id": sid, "property": prop, "patch": os.path.basename(patch),
                     "origin": "independent sub-agent given only the property text and a scratch worktree",
                     "confirmed": "patch applies, builds warning-free with the repository's CMake recipe, 88/88 tests pass, demo fails with the patch and passes without (tools/confirm_seed.sh)"})
        sh("git -C %s checkout -- ." % R)
        out = sh("git -C %s apply %s" % (R, patch))
        if out.strip():
            meta["detection"] = {"error": "patch does not apply to the current (repaired) tree: " + out.strip()[:200]}
            json.dump(meta, open(meta_p, "w"), indent=1)
            rows.append((sid, "n/a", "does not apply"))
            continue
        det = {}
        for chk in [prop] + ALSO.get(sid, []):
            tier = TIER.get("%s/%s" % (sid, chk), "quick")
            o = sh("VERIF_REPO=%s timeout 900 python3 %s/bin/verif check %s --tier %s" % (R, ROOT, chk, tier))
            viol = re.findall(r"^VIOLATION property=(\w+)", o, re.M)
            first = re.search(r"^VIOLATION.*\n  (.*)$", o, re.M)
            det[chk] = {"tier": tier, "violations_reported": len(viol), "detected": bool(viol),
                        "first": (first.group(1)[:300] if first else None), "infra_error": "INFRASTRUCTURE" in o}
        sh("git -C %s checkout -- ." % R)
        meta["detection"] = det
        json.dump(meta, open(meta_p, "w"), indent=1)
        rows.append((sid, ", ".join("%s:%s" % (k, "DETECTED" if v["detected"] else "missed") for k, v in det.items()), (det[prop]["first"] or "")[:110]))
        print(rows[-1]); sys.stdout.flush()
    with open(os.path.join(ROOT, "seeded", "RESULTS.md"), "a" if only else "w") as f:
        if not only:
            f.write("# Seeded changes and which checks detect them (quick tier)\n\n| seed | result | first report |\n|---|---|---|\n")
        for r in rows:
            f.write("| %s | %s | %s |\n" % r)


if __name__ == "__main__":
    main()
