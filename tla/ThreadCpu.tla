---------------------------- MODULE ThreadCpu ----------------------------
(* Reference model for properties C04 (thread life-cycle) and C05 (CPU      *)
(* occupancy) of ovni.  Written from doc/user/emulation/ovni.md and the     *)
(* property statements, NOT from src/emu/ovni/event.c.                      *)
(*                                                                          *)
(* The configuration (threads, their loom, the CPUs of every loom) is       *)
(* supplied by a generated module MCThreadCpu that EXTENDS this one and     *)
(* defines Threads, LoomOf, PhysOf, VirtOf.                                 *)
(*                                                                          *)
(* The generated module also defines one named action per parameter         *)
(* instance (e.g. a_x_t0_A0 == Execute("t0","A0")) and MCNext as their      *)
(* disjunction, so that `tlc -dump dot,actionlabels` labels every edge of   *)
(* the complete state graph with the operation and its arguments; the graph *)
(* is then replayed, edge by edge, against the real emulator.               *)
EXTENDS Naturals, FiniteSets, TLC

CONSTANTS Threads,      \* set of thread names
          Looms,        \* set of loom names
          LoomOf,       \* [Threads -> Looms]
          PhysOf,       \* [Looms -> set of physical CPU names]
          VirtOf        \* [Looms -> name of the loom's virtual CPU]

VARIABLES st, cpu

vars == <<st, cpu>>

NoCpu == "none"
States == {"unknown", "running", "paused", "dead", "cooling", "warming"}
Active == {"running", "cooling", "warming"}

AllPhys == UNION {PhysOf[l] : l \in Looms}
CpusOf(l) == PhysOf[l] \cup {VirtOf[l]}

RunningOn(c, s, k) == {t \in Threads : k[t] = c /\ s[t] = "running"}

\* C05: a physical CPU never holds two running threads
Safe(s, k) == \A c \in AllPhys : Cardinality(RunningOn(c, s, k)) <= 1

Init == /\ st = [t \in Threads |-> "unknown"]
        /\ cpu = [t \in Threads |-> NoCpu]

\* op is a label only: it documents which event the step stands for
Step(s2, k2, op) == /\ Safe(s2, k2)
                    /\ st' = s2
                    /\ cpu' = k2

Execute(t, c) == /\ st[t] = "unknown"
                 /\ c \in CpusOf(LoomOf[t])
                 /\ Step([st EXCEPT ![t] = "running"], [cpu EXCEPT ![t] = c], <<"x", t, c>>)

Cool(t) == /\ st[t] = "running"
           /\ Step([st EXCEPT ![t] = "cooling"], cpu, <<"c", t>>)

Pause(t) == /\ st[t] \in {"running", "cooling"}
            /\ Step([st EXCEPT ![t] = "paused"], cpu, <<"p", t>>)

Warm(t) == /\ st[t] = "paused"
           /\ Step([st EXCEPT ![t] = "warming"], cpu, <<"w", t>>)

Resume(t) == /\ st[t] \in {"paused", "warming"}
             /\ Step([st EXCEPT ![t] = "running"], cpu, <<"r", t>>)

End(t) == /\ st[t] \in {"running", "cooling"}
          /\ Step([st EXCEPT ![t] = "dead"], [cpu EXCEPT ![t] = NoCpu], <<"e", t>>)

\* Affinity.  When these are legal is not fixed by C04/C05 ("soft guard" in
\* the conformance walk); their effect on the binding is.
AffSet(t, c) == /\ st[t] \in Active
                /\ c \in CpusOf(LoomOf[t])
                /\ Step(st, [cpu EXCEPT ![t] = c], <<"s", t, c>>)

AffRemote(e, t, c) == /\ st[t] \in {"running", "paused", "cooling", "warming"}
                      /\ LoomOf[e] = LoomOf[t]
                      /\ c \in CpusOf(LoomOf[t])
                      /\ Step(st, [cpu EXCEPT ![t] = c], <<"R", e, t, c>>)

Next == \/ \E t \in Threads : Cool(t) \/ Pause(t) \/ Warm(t) \/ Resume(t) \/ End(t)
        \/ \E t \in Threads : \E c \in CpusOf(LoomOf[t]) : Execute(t, c) \/ AffSet(t, c)
        \/ \E e \in Threads, t \in Threads : \E c \in CpusOf(LoomOf[t]) : AffRemote(e, t, c)

Spec == Init /\ [][Next]_vars

-----------------------------------------------------------------------------
TypeOK == /\ st \in [Threads -> States]
          /\ \A t \in Threads : cpu[t] \in CpusOf(LoomOf[t]) \cup {NoCpu}

\* C05
NoOversubscription == Safe(st, cpu)

\* a thread is bound to a CPU exactly while it is started and not dead
BoundIffAlive == \A t \in Threads : (cpu[t] # NoCpu) <=> (st[t] \notin {"unknown", "dead"})

\* a dead thread never changes again (execute from dead is outside the space)
DeadIsFinal == [][\A t \in Threads : st[t] = "dead" => st'[t] = "dead"]_vars

AllDead == \A t \in Threads : st[t] = "dead"
=============================================================================
