/* E4 (C20): sort_replace() and the sort module driven in-process.
 * usage: sort_check replace <maxlen> <maxval>
 *        sort_check module <n> <maxval> <changes-per-propagation>
 * prints "cases=<n> states=<n>" ; on failure "FAIL ..." and exit 1 */
#define _GNU_SOURCE
#include <stdio.h>
#include <stdlib.h>
#include <string.h>
#include <stdint.h>
#include "sort.h"
#include "bay.h"
#include "chan.h"
#include "value.h"

static int
cmp64(const void *a, const void *b)
{
	int64_t x = *(const int64_t *) a, y = *(const int64_t *) b;
	return (x > y) - (x < y);
}

static unsigned long long ncases;

static int
test_replace(int maxlen, int maxval)
{
	for (int n = 1; n <= maxlen; n++) {
		int64_t arr[16], work[18], ref[16];
		long total = 1;
		for (int i = 0; i < n; i++)
			total *= (maxval + 1);
		for (long c = 0; c < total; c++) {
			long x = c;
			int sorted = 1;
			for (int i = 0; i < n; i++) {
				arr[i] = x % (maxval + 1);
				x /= (maxval + 1);
				if (i > 0 && arr[i] < arr[i - 1])
					sorted = 0;
			}
			if (!sorted)
				continue;
			for (int oi = 0; oi < n; oi++) {
				if (oi > 0 && arr[oi] == arr[oi - 1])
					continue;
				for (int64_t nw = -1; nw <= maxval + 1; nw++) {
					if (nw == arr[oi])
						continue;
					/* guards around the array detect writes outside it */
					work[0] = 777;
					work[n + 1] = 888;
					memcpy(work + 1, arr, sizeof(int64_t) * (size_t) n);
					sort_replace(work + 1, n, arr[oi], nw);
					memcpy(ref, arr, sizeof(int64_t) * (size_t) n);
					ref[oi] = nw;
					qsort(ref, (size_t) n, sizeof(int64_t), cmp64);
					ncases++;
					if (work[0] != 777 || work[n + 1] != 888 || memcmp(ref, work + 1, sizeof(int64_t) * (size_t) n) != 0) {
						printf("FAIL replace n=%d old=%ld new=%ld arr=", n, (long) arr[oi], (long) nw);
						for (int i = 0; i < n; i++)
							printf("%ld,", (long) arr[i]);
						printf(" got=");
						for (int i = 0; i < n; i++)
							printf("%ld,", (long) work[1 + i]);
						printf("\n");
						return 1;
					}
				}
			}
		}
	}
	return 0;
}

#define MAXN 6
static int emitted[MAXN];

static int
cb_emit(struct chan *chan, void *ptr)
{
	(void) chan;
	int *slot = ptr;
	(*slot)++;
	return 0;
}

/* Complete graph over the input vectors: from every vector, every set of k simultaneous
 * input changes (k = 1..kmax) in one propagation. */
static int
test_module(int n, int maxval, int kmax)
{
	long nvec = 1;
	for (int i = 0; i < n; i++)
		nvec *= (maxval + 1);
	for (long from = 0; from < nvec; from++) {
		for (long to = 0; to < nvec; to++) {
			int diff = 0;
			long a = from, b = to;
			int64_t vf[MAXN], vt[MAXN];
			for (int i = 0; i < n; i++) {
				vf[i] = a % (maxval + 1);
				vt[i] = b % (maxval + 1);
				a /= (maxval + 1);
				b /= (maxval + 1);
				if (vf[i] != vt[i])
					diff++;
			}
			if (diff == 0 || diff > kmax)
				continue;
			/* fresh module, bring it to `from` (one input at a time), then apply the change set at once */
			struct bay bay;
			struct chan in[MAXN];
			struct sort sort;
			bay_init(&bay);
			for (int i = 0; i < n; i++) {
				chan_init(&in[i], CHAN_SINGLE, "in.%d", i);
				if (bay_register(&bay, &in[i]) != 0)
					return 2;
			}
			if (sort_init(&sort, &bay, n, "s") != 0)
				return 2;
			for (int i = 0; i < n; i++) {
				if (sort_set_input(&sort, i, &in[i]) != 0)
					return 2;
				if (bay_add_cb(&bay, BAY_CB_EMIT, sort_get_output(&sort, i), cb_emit, &emitted[i], 1) == NULL)
					return 2;
			}
			for (int i = 0; i < n; i++) {
				/* value 0 stands for null */
				if (vf[i] == 0)
					continue;
				if (chan_set(&in[i], value_int64(vf[i])) != 0 || bay_propagate(&bay) != 0) {
					printf("FAIL module setup refused\n");
					return 1;
				}
			}
			int64_t before[MAXN];
			for (int i = 0; i < n; i++) {
				struct value v;
				if (chan_read(sort_get_output(&sort, i), &v) != 0)
					return 2;
				/* a never-written output holds null, which differs from any number */
				before[i] = v.type == VALUE_INT64 ? v.i : -12345;
				emitted[i] = 0;
			}
			for (int i = 0; i < n; i++) {
				if (vf[i] == vt[i])
					continue;
				struct value nv = vt[i] == 0 ? value_null() : value_int64(vt[i]);
				if (chan_set(&in[i], nv) != 0) {
					printf("FAIL module chan_set refused\n");
					return 1;
				}
			}
			if (bay_propagate(&bay) != 0) {
				printf("FAIL module propagate failed from=%ld to=%ld n=%d\n", from, to, n);
				return 1;
			}
			int64_t ref[MAXN];
			memcpy(ref, vt, sizeof(int64_t) * (size_t) n);
			qsort(ref, (size_t) n, sizeof(int64_t), cmp64);
			ncases++;
			for (int i = 0; i < n; i++) {
				struct value v;
				if (chan_read(sort_get_output(&sort, i), &v) != 0)
					return 2;
				int64_t got = v.type == VALUE_INT64 ? v.i : 0;
				if (got != ref[i]) {
					printf("FAIL module n=%d from=%ld to=%ld: output %d is %ld, sorted inputs give %ld\n", n, from, to, i, (long) got, (long) ref[i]);
					return 1;
				}
				if (ref[i] == before[i] && emitted[i] > 0 && diff == 1) {
					printf("FAIL module n=%d from=%ld to=%ld: output %d did not change (%ld) but was rewritten\n", n, from, to, i, (long) got);
					return 1;
				}
				if (ref[i] != before[i] && emitted[i] == 0) {
					printf("FAIL module n=%d from=%ld to=%ld: output %d changed but was not emitted\n", n, from, to, i);
					return 1;
				}
			}
		}
	}
	return 0;
}

int
main(int argc, char *argv[])
{
	int r = 2;
	if (argc >= 4 && strcmp(argv[1], "replace") == 0)
		r = test_replace(atoi(argv[2]), atoi(argv[3]));
	else if (argc >= 5 && strcmp(argv[1], "module") == 0)
		r = test_module(atoi(argv[2]), atoi(argv[3]), atoi(argv[4]));
	printf("cases=%llu\n", ncases);
	return r;
}
