/* E4 (C03a): src/include/heap.h, every sequence of insert(k)/pop up to a length.
 * usage: heap_check <maxlen> <nkeys> <first-op-filter (0..nkeys) or -1>
 * prints: "sequences=<n> ops=<n> maxsize=<n> shapes=<n>" and, on failure, "FAIL <sequence> : <reason>" */
#define _GNU_SOURCE
#include <stdio.h>
#include <stdlib.h>
#include <string.h>
#include <stdint.h>
#include "heap.h"

struct item {
	int key;
	int serial;
	int inheap;
	heap_node_t hn;
};

static int
cmp(heap_node_t *a, heap_node_t *b)
{
	struct item *x = heap_elem(a, struct item, hn);
	struct item *y = heap_elem(b, struct item, hn);
	return (x->key > y->key) - (x->key < y->key);
}

#define MAXL 16
static struct item items[MAXL];
static heap_head_t head;
static const char *why;
static size_t maxsize;
static uint64_t shapes_seen[1 << 12];
static size_t nshapes;

static size_t
walk(heap_node_t *n, heap_node_t *parent, int depth, int *mind, int *maxd, int *bad)
{
	if (n == NULL)
		return 0;
	if (n->parent != parent) {
		*bad = 1;
		why = "parent pointer inconsistent";
	}
	if (parent && cmp(parent, n) < 0) {
		*bad = 1;
		why = "heap order violated";
	}
	if (!n->left || !n->right) {
		/* a node with a free slot: must be in the last two levels */
		if (depth < *mind)
			*mind = depth;
	}
	if (depth > *maxd)
		*maxd = depth;
	if (depth > 8) {
		*bad = 1;
		why = "cycle or degenerate tree";
		return 0;
	}
	return 1 + walk(n->left, n, depth + 1, mind, maxd, bad) + walk(n->right, n, depth + 1, mind, maxd, bad);
}

static int
check_structure(void)
{
	int mind = 99, maxd = -1, bad = 0;
	size_t n = walk(head.root, NULL, 0, &mind, &maxd, &bad);
	if (bad)
		return -1;
	if (n != head.size) {
		why = "size does not match reachable nodes";
		return -1;
	}
	if (head.root && maxd - mind > 1) {
		why = "tree is not complete (a level above the last two has a free slot)";
		return -1;
	}
	if (head.size > maxsize)
		maxsize = head.size;
	return 0;
}

static int
run(const int *seq, int len, int nkeys)
{
	heap_init(&head);
	int nitems = 0;
	int count[8] = { 0 };
	int total = 0;
	for (int i = 0; i < len; i++) {
		int op = seq[i];
		if (op < nkeys) {
			struct item *it = &items[nitems++];
			it->key = op;
			it->serial = i;
			it->inheap = 1;
			heap_insert(&head, &it->hn, cmp);
			count[op]++;
			total++;
		} else {
			heap_node_t *n = heap_pop_max(&head, cmp);
			if (total == 0) {
				if (n != NULL) {
					why = "pop on empty heap returned a node";
					return i;
				}
			} else {
				if (n == NULL) {
					why = "pop returned NULL on non-empty heap";
					return i;
				}
				struct item *it = heap_elem(n, struct item, hn);
				if (it < items || it >= items + nitems || !it->inheap) {
					why = "pop returned a node that is not in the heap (lost or duplicated element)";
					return i;
				}
				int mx = -1;
				for (int k = 0; k < nkeys; k++)
					if (count[k] > 0)
						mx = k;
				if (it->key != mx) {
					why = "pop did not return a maximal element";
					return i;
				}
				it->inheap = 0;
				count[it->key]--;
				total--;
			}
		}
		if ((size_t) total != head.size) {
			why = "size field wrong";
			return i;
		}
		if (check_structure() != 0)
			return i;
	}
	/* drain: everything must come out, in non-increasing key order */
	int last = 99;
	while (total > 0) {
		heap_node_t *n = heap_pop_max(&head, cmp);
		if (!n) {
			why = "element lost (drain returned NULL early)";
			return len;
		}
		struct item *it = heap_elem(n, struct item, hn);
		if (!it->inheap || it->key > last) {
			why = "drain order wrong or duplicate";
			return len;
		}
		last = it->key;
		it->inheap = 0;
		total--;
		if (check_structure() != 0)
			return len;
	}
	if (heap_pop_max(&head, cmp) != NULL) {
		why = "heap not empty after draining";
		return len;
	}
	return -1;
}

int
main(int argc, char *argv[])
{
	int maxlen = argc > 1 ? atoi(argv[1]) : 8;
	int nkeys = argc > 2 ? atoi(argv[2]) : 3;
	int first = argc > 3 ? atoi(argv[3]) : -1;
	int nops = nkeys + 1;
	unsigned long long nseq = 0, nop = 0;
	int seq[MAXL];
	for (int len = 1; len <= maxlen; len++) {
		unsigned long long total = 1;
		for (int i = 0; i < len; i++)
			total *= (unsigned long long) nops;
		for (unsigned long long c = 0; c < total; c++) {
			unsigned long long x = c;
			for (int i = 0; i < len; i++) {
				seq[i] = (int) (x % (unsigned long long) nops);
				x /= (unsigned long long) nops;
			}
			if (first >= 0 && seq[0] != first)
				continue;
			why = NULL;
			int r = run(seq, len, nkeys);
			nseq++;
			nop += (unsigned long long) len;
			if (r >= 0) {
				printf("FAIL ");
				for (int i = 0; i < len; i++)
					printf("%c", seq[i] < nkeys ? '0' + seq[i] : 'p');
				printf(" : at op %d: %s\n", r, why ? why : "?");
				printf("sequences=%llu ops=%llu maxsize=%zu\n", nseq, nop, maxsize);
				return 1;
			}
		}
	}
	printf("sequences=%llu ops=%llu maxsize=%zu\n", nseq, nop, maxsize);
	return 0;
}
