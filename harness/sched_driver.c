/* E2 (C11): libovni under real pthreads and a cooperative scheduler.
 *
 * The library source of the working tree is compiled into this translation unit;
 * the stdatomic macros it uses are redefined so that every atomic operation is a
 * scheduling point, and the libc calls that touch shared file-system state
 * (mkdir, open, fopen, remove, rmdir, opendir) are interposed at link level and
 * are scheduling points too.  Exactly one thread runs at a time (semaphore
 * hand-off); a list of choices given on the command stream selects, at every
 * point where more than one thread is enabled, which one continues.  abort() is
 * interposed: the calling thread is marked "refused" and terminated, so losers of
 * the init/fini races are observable without killing the run.
 *
 * Server protocol (stdin):  "<scenario> <mode> c0 c1 c2 ...\n"   (mode: d = direct, t = OVNI_TMPDIR)
 * Reply: "R <npoints> | n,re,ch;n,re,ch;... | <verdict> | <outcome>"
 *   per point: number of enabled threads, running thread still enabled (0/1), choice taken
 * With -DVERIF_NOSCHED the same scenario bodies run freely (ThreadSanitizer pass).
 */
#define _GNU_SOURCE
#include <dirent.h>
#include <sys/uio.h>
#include <dlfcn.h>
#include <errno.h>
#include <fcntl.h>
#include <ftw.h>
#include <pthread.h>
#include <semaphore.h>
#include <stdarg.h>
#include <stdatomic.h>
#include <stdio.h>
#include <stdlib.h>
#include <string.h>
#include <sys/stat.h>
#include <sys/wait.h>
#include <time.h>
#include <unistd.h>

static void sched_point(void);

#ifndef VERIF_NOSCHED
#undef atomic_load
#undef atomic_store
#undef atomic_compare_exchange_strong
#define atomic_load(p) (sched_point(), __atomic_load_n((p), __ATOMIC_SEQ_CST))
#define atomic_store(p, v) (sched_point(), __atomic_store_n((p), (v), __ATOMIC_SEQ_CST))
#define atomic_compare_exchange_strong(p, e, d) \
	(sched_point(), __atomic_compare_exchange_n((p), (e), (d), 0, __ATOMIC_SEQ_CST, __ATOMIC_SEQ_CST))
#endif

#include "ovni.h"
#ifdef VERIF_BUFSZ
/* small staging buffer: the scripts then fill it, so that the automatic flush (and its markers) happens concurrently */
#undef OVNI_MAX_EV_BUF
#define OVNI_MAX_EV_BUF (VERIF_BUFSZ)
#endif
#include VERIF_OVNI_C

/* ------------------------------------------------------------------ */
#define NT 3
#define MAXP 4096
static sem_t sem[NT], main_sem;
static int done[NT], refused[NT], completed[NT], nthreads;
static _Thread_local int my_id = -1;
static int sched_on;
static int choices[MAXP], nchoices, pos;
static struct { int n, re, ch; } pts[MAXP];
static int npts, diverged, horizon;
static char refuse_msg[NT][128];
static _Thread_local unsigned long long fake_ns;

int
clock_gettime(clockid_t id, struct timespec *tp)
{
	(void) id;
	fake_ns += 3;
	tp->tv_sec = (time_t) (fake_ns / 1000000000ULL);
	tp->tv_nsec = (long) (fake_ns % 1000000000ULL);
	return 0;
}

static int
pick(int me)
{
	int list[NT], n = 0;
	if (me >= 0 && !done[me])
		list[n++] = me;
	for (int i = 0; i < nthreads; i++)
		if (i != me && !done[i])
			list[n++] = i;
	if (n == 0)
		return -1;
	if (n == 1)
		return list[0];
	int c = 0;
	if (pos < nchoices)
		c = choices[pos];
	if (c >= n) {
		diverged = 1;
		c = 0;
	}
	if (npts < MAXP) {
		pts[npts].n = n;
		pts[npts].re = (me >= 0 && !done[me]);
		pts[npts].ch = c;
		npts++;
	} else {
		horizon = 1;
	}
	pos++;
	return list[c];
}

static void
sched_point(void)
{
#ifndef VERIF_NOSCHED
	if (!sched_on || my_id < 0)
		return;
	int me = my_id;
	int next = pick(me);
	if (next != me) {
		sem_post(&sem[next]);
		sem_wait(&sem[me]);
	}
#endif
}

static void
thread_exit_handoff(int me)
{
#ifndef VERIF_NOSCHED
	done[me] = 1;
	int next = pick(-1);
	if (next >= 0)
		sem_post(&sem[next]);
	else
		sem_post(&main_sem);
#else
	(void) me;
#endif
}

void
abort(void)
{
	if (my_id >= 0) {
		refused[my_id] = 1;
		fflush(NULL);
		thread_exit_handoff(my_id);
		pthread_exit(NULL);
	}
	fflush(NULL);
	_exit(43);
}

/* ---- interposed libc calls touching shared file-system state: scheduling points ---- */
static int (*real_mkdir)(const char *, mode_t);
static int (*real_rmdir)(const char *);
static int (*real_remove)(const char *);
static DIR *(*real_opendir)(const char *);
static FILE *(*real_fopen)(const char *, const char *);
static int (*real_open)(const char *, int, ...);
static size_t (*real_fread)(void *, size_t, size_t, FILE *);
static size_t (*real_fwrite)(const void *, size_t, size_t, FILE *);
static ssize_t (*real_write)(int, const void *, size_t);
static int (*real_fputs)(const char *, FILE *);
static int (*real_fclose)(FILE *);
static int (*real_rename)(const char *, const char *);
static int (*real_unlink)(const char *);
static int (*real_close)(int);
static int (*real_stat)(const char *, struct stat *);
static ssize_t (*real_writev)(int, const struct iovec *, int);
static ssize_t (*real_pwrite)(int, const void *, size_t, off_t);
static int (*real_fsync)(int);
static int (*real_fdatasync)(int);
static int (*real_ftruncate)(int, off_t);
static struct dirent *(*real_readdir)(DIR *);

__attribute__((constructor)) static void
resolve(void)
{
	real_mkdir = dlsym(RTLD_NEXT, "mkdir");
	real_rmdir = dlsym(RTLD_NEXT, "rmdir");
	real_remove = dlsym(RTLD_NEXT, "remove");
	real_opendir = dlsym(RTLD_NEXT, "opendir");
	real_fopen = dlsym(RTLD_NEXT, "fopen");
	real_open = dlsym(RTLD_NEXT, "open");
	real_fread = dlsym(RTLD_NEXT, "fread");
	real_fwrite = dlsym(RTLD_NEXT, "fwrite");
	real_write = dlsym(RTLD_NEXT, "write");
	real_fputs = dlsym(RTLD_NEXT, "fputs");
	real_fclose = dlsym(RTLD_NEXT, "fclose");
	real_rename = dlsym(RTLD_NEXT, "rename");
	real_unlink = dlsym(RTLD_NEXT, "unlink");
	real_close = dlsym(RTLD_NEXT, "close");
	real_stat = dlsym(RTLD_NEXT, "stat");
	real_writev = dlsym(RTLD_NEXT, "writev");
	real_pwrite = dlsym(RTLD_NEXT, "pwrite");
	real_fsync = dlsym(RTLD_NEXT, "fsync");
	real_fdatasync = dlsym(RTLD_NEXT, "fdatasync");
	real_ftruncate = dlsym(RTLD_NEXT, "ftruncate");
	real_readdir = dlsym(RTLD_NEXT, "readdir");
}

/* the flush of a thread's staging buffer: other threads may run while it is written */
ssize_t write(int fd, const void *b, size_t n) { sched_point(); return real_write(fd, b, n); }

/* the relocation copy loop (fread into a buffer, fwrite out of it) is library code operating on
 * files of several threads in turn: make both halves scheduling points */
size_t fread(void *b, size_t s, size_t n, FILE *f) { sched_point(); return real_fread(b, s, n, f); }
size_t fwrite(const void *b, size_t s, size_t n, FILE *f) { sched_point(); return real_fwrite(b, s, n, f); }

/* every other call by which the library touches a file another thread may be touching too (metadata written through
 * stdio, files renamed, removed, examined or closed) */
int fputs(const char *t, FILE *f) { sched_point(); return real_fputs(t, f); }
int fclose(FILE *f) { sched_point(); return real_fclose(f); }
int rename(const char *a, const char *b) { sched_point(); return real_rename(a, b); }
int unlink(const char *p) { sched_point(); return real_unlink(p); }
int close(int fd) { sched_point(); return real_close(fd); }
int stat(const char *p, struct stat *st) { sched_point(); return real_stat(p, st); }
ssize_t writev(int fd, const struct iovec *v, int n) { sched_point(); return real_writev(fd, v, n); }
ssize_t pwrite(int fd, const void *b, size_t n, off_t o) { sched_point(); return real_pwrite(fd, b, n, o); }
int fsync(int fd) { sched_point(); return real_fsync(fd); }
int fdatasync(int fd) { sched_point(); return real_fdatasync(fd); }
int ftruncate(int fd, off_t n) { sched_point(); return real_ftruncate(fd, n); }
struct dirent *readdir(DIR *d) { sched_point(); return real_readdir(d); }
int mkdir(const char *p, mode_t m) { sched_point(); return real_mkdir(p, m); }
int rmdir(const char *p) { sched_point(); return real_rmdir(p); }
int remove(const char *p) { sched_point(); return real_remove(p); }
DIR *opendir(const char *p) { sched_point(); return real_opendir(p); }
FILE *fopen(const char *p, const char *m) { sched_point(); return real_fopen(p, m); }
int
open(const char *p, int flags, ...)
{
	mode_t mode = 0;
	if (flags & O_CREAT) {
		va_list ap;
		va_start(ap, flags);
		mode = va_arg(ap, mode_t);
		va_end(ap);
	}
	sched_point();
	return real_open(p, flags, mode);
}

/* ---- scenario bodies ---- */
static void
emit(const char *mcv, const void *p, int n)
{
	struct ovni_ev ev = {0};
	ovni_ev_set_clock(&ev, ovni_clock_now());
	ovni_ev_set_mcv(&ev, mcv);
	if (n)
		ovni_payload_add(&ev, p, n);
	ovni_ev_emit(&ev);
}

static void
script_full(int i)
{
	int tid = 500 + i;
	fake_ns = (unsigned long long) tid * 1000000ULL;
	sched_point();
	ovni_thread_init(tid);
	ovni_thread_require("nosv", "2.0.0");
	ovni_add_cpu(i, i + 4);
	struct { int32_t cpu, tid; uint64_t tag; } __attribute__((packed)) x = { i, tid, 0 };
	emit("OHx", &x, 16);
	uint8_t pay[4] = { (uint8_t) i, 1, 2, 3 };
	emit("OB.", pay, 4);
#ifdef VERIF_BUFSZ
	{
		/* fills the small buffer: one of these emits flushes it automatically */
		uint8_t big[16] = { (uint8_t) i, 9, 8, 7, 6, 5, 4, 3, 2, 1, 0, 1, 2, 3, 4, 5 };
		emit("OB.", big, 16);
		emit("OB.", big, 16);
		emit("OB.", big, 16);
	}
#endif
	sched_point();
	ovni_flush();
	ovni_attr_set_double("verif.k", (double) (i + 7));
	/* the metadata written out in the middle of the life, and a mark type of the thread's own */
	sched_point();
	ovni_attr_flush();
	ovni_mark_type(i, OVNI_MARK_STACK, i ? "mark-b" : "mark-a");
	ovni_mark_label(i, 1 + i, "one");
	ovni_mark_push(i, 1 + i);
	ovni_mark_pop(i, 1 + i);
	emit("OB.", pay, 2);
	emit("OHe", NULL, 0);
	sched_point();
	ovni_flush();
	sched_point();
	ovni_thread_free();
	completed[i] = 1;
}

static int scenario;
static int inited[NT], finied[NT];

static void
body(int i)
{
	char loom[16];
	snprintf(loom, sizeof(loom), "L%d", i);
	switch (scenario) {
	case 'a': /* three threads race proc_init; the winner traces */
		sched_point();
		ovni_proc_init(1, loom, 500 + i);
		inited[i] = 1;
		script_full(i);
		sched_point();
		ovni_proc_fini();
		finied[i] = 1;
		break;
	case 'b': /* process ready; two threads trace concurrently */
	case 'e': /* the same with three threads */
		script_full(i);
		break;
	case 'c': /* two threads race proc_fini */
		sched_point();
		ovni_proc_fini();
		finied[i] = 1;
		break;
	case 'd': /* thread_init racing proc_init */
		if (i == 0) {
			sched_point();
			ovni_proc_init(1, "L0", 500);
			inited[0] = 1;
			script_full(0);
		} else {
			script_full(1);
		}
		break;
	}
}

static void *
thread_main(void *arg)
{
	int i = (int) (long) arg;
	my_id = i;
#ifndef VERIF_NOSCHED
	sem_wait(&sem[i]);
#endif
	body(i);
	thread_exit_handoff(i);
	return NULL;
}

/* ---- files ---- */
static char rundir[512], refdir[512];

static long
slurp(const char *path, char *buf, long max)
{
	FILE *f = real_fopen(path, "r");
	if (!f)
		return -1;
	long n = (long) real_fread(buf, 1, (size_t) max, f);
	fclose(f);
	return n;
}

static int
rm_cb(const char *p, const struct stat *sb, int t, struct FTW *f)
{
	(void) sb; (void) t; (void) f;
	real_remove(p);
	return 0;
}

static void
rmtree(const char *d)
{
	nftw(d, rm_cb, 16, FTW_DEPTH | FTW_PHYS);
}

static void
setup_env(const char *dir, int tmpmode)
{
	char p[600];
	snprintf(p, sizeof(p), "%s/final", dir);
	setenv("OVNI_TRACEDIR", p, 1);
	if (tmpmode) {
		snprintf(p, sizeof(p), "%s/tmp", dir);
		setenv("OVNI_TMPDIR", p, 1);
	} else {
		unsetenv("OVNI_TMPDIR");
	}
}

static void
run_threads(int n)
{
	pthread_t th[NT];
	nthreads = n;
	sem_init(&main_sem, 0, 0);
	for (int i = 0; i < n; i++)
		sem_init(&sem[i], 0, 0);
	sched_on = 1;
	for (int i = 0; i < n; i++)
		pthread_create(&th[i], NULL, thread_main, (void *) (long) i);
#ifndef VERIF_NOSCHED
	int first = pick(-1);
	sem_post(&sem[first]);
	sem_wait(&main_sem);
#endif
	for (int i = 0; i < n; i++)
		pthread_join(th[i], NULL);
	sched_on = 0;
}

static int
nthreads_of(int sc)
{
	return (sc == 'a' || sc == 'e') ? 3 : 2;
}

/* compare the files of thread i (loom L, pid P) with the solo reference */
static int
cmp_thread(int i, const char *loom, int pid, char *why, size_t n)
{
	static char a[1 << 16], b[1 << 16];
	const char *names[2] = { "stream.obs", "stream.json" };
	for (int k = 0; k < 2; k++) {
		char p[700], q[700];
		snprintf(p, sizeof(p), "%s/final/loom.%s/proc.%d/thread.%d/%s", rundir, loom, pid, 500 + i, names[k]);
		snprintf(q, sizeof(q), "%s/%c%d/final/loom.%s/proc.%d/thread.%d/%s", refdir, scenario, i, loom, pid, 500 + i, names[k]);
		long la = slurp(p, a, sizeof(a)), lb = slurp(q, b, sizeof(b));
		if (lb < 0) {
			snprintf(why, n, "no reference %s", q);
			return -1;
		}
		if (la != lb || memcmp(a, b, (size_t) (la > 0 ? la : 0)) != 0) {
			snprintf(why, n, "thread %d: %s differs from what the thread writes when it runs alone (%ld vs %ld bytes)", 500 + i, names[k], la, lb);
			return 1;
		}
	}
	return 0;
}

static void
execute(int sc, int tmpmode, FILE *out)
{
	scenario = sc;
	setup_env(rundir, tmpmode);
	int n = nthreads_of(sc);
	if (sc == 'b' || sc == 'c' || sc == 'e')
		ovni_proc_init(1, "L0", 500);
	run_threads(n);
	char verdict[256] = "ok";
	char outcome[256] = "";
	int nin = 0, nfi = 0;
	for (int i = 0; i < n; i++) {
		nin += inited[i];
		nfi += finied[i];
		size_t l = strlen(outcome);
		snprintf(outcome + l, sizeof(outcome) - l, "t%d:%s%s%s%s ", i, inited[i] ? "I" : "", completed[i] ? "C" : "", finied[i] ? "F" : "", refused[i] ? "x" : "");
	}
	char why[200];
	if (diverged)
		snprintf(verdict, sizeof(verdict), "DIVERGED");
	else if (horizon)
		snprintf(verdict, sizeof(verdict), "HORIZON");
	else if (sc == 'a') {
		if (nin != 1)
			snprintf(verdict, sizeof(verdict), "%d threads returned from ovni_proc_init (exactly one must)", nin);
		for (int i = 0; i < n && strcmp(verdict, "ok") == 0; i++) {
			char loom[16];
			snprintf(loom, sizeof(loom), "L%d", i);
			if (inited[i]) {
				if (!completed[i] || !finied[i])
					snprintf(verdict, sizeof(verdict), "the winner of the init race (thread %d) was refused later", i);
				else if (cmp_thread(i, loom, 500 + i, why, sizeof(why)) != 0)
					snprintf(verdict, sizeof(verdict), "%s", why);
			} else if (!refused[i]) {
				snprintf(verdict, sizeof(verdict), "loser %d neither returned nor was refused", i);
			}
		}
	} else if (sc == 'b' || sc == 'e') {
		for (int i = 0; i < n && strcmp(verdict, "ok") == 0; i++) {
			if (!completed[i])
				snprintf(verdict, sizeof(verdict), "thread %d was refused although the process was ready", i);
			else if (cmp_thread(i, "L0", 500, why, sizeof(why)) != 0)
				snprintf(verdict, sizeof(verdict), "%s", why);
		}
	} else if (sc == 'c') {
		if (nfi != 1)
			snprintf(verdict, sizeof(verdict), "%d threads returned from ovni_proc_fini (exactly one must)", nfi);
	} else if (sc == 'd') {
		if (!inited[0] || !completed[0])
			snprintf(verdict, sizeof(verdict), "the initialising thread was refused");
		else if (cmp_thread(0, "L0", 500, why, sizeof(why)) != 0)
			snprintf(verdict, sizeof(verdict), "%s", why);
		else if (completed[1]) {
			if (cmp_thread(1, "L0", 500, why, sizeof(why)) != 0)
				snprintf(verdict, sizeof(verdict), "%s", why);
		} else if (!refused[1]) {
			snprintf(verdict, sizeof(verdict), "thread 1 neither completed nor was refused");
		}
	}
	fprintf(out, "R %d | ", npts);
	for (int i = 0; i < npts; i++)
		fprintf(out, "%d,%d,%d;", pts[i].n, pts[i].re, pts[i].ch);
	fprintf(out, " | %s | %s\n", verdict, outcome);
	fflush(out);
}

/* solo references: thread i runs its script alone (after a complete init) */
static void
make_refs(void)
{
	const char scs[] = "abde";
	for (int s = 0; scs[s]; s++) {
		for (int i = 0; i < nthreads_of(scs[s]); i++) {
			char d[600];
			snprintf(d, sizeof(d), "%s/%c%d", refdir, scs[s], i);
			pid_t p = fork();
			if (p == 0) {
				int dn = open("/dev/null", O_WRONLY);
				dup2(dn, 2);
				setup_env(d, 0);
				char loom[16];
				snprintf(loom, sizeof(loom), "L%d", scs[s] == 'a' ? i : 0);
				ovni_proc_init(1, loom, 500 + (scs[s] == 'a' ? i : 0));
				my_id = -1;
				script_full(i);
				_exit(completed[i] ? 0 : 1);
			}
			int st;
			waitpid(p, &st, 0);
		}
	}
}

int
main(int argc, char *argv[])
{
	if (argc < 2)
		return 2;
	snprintf(refdir, sizeof(refdir), "%s/ref", argv[1]);
	snprintf(rundir, sizeof(rundir), "%s/run", argv[1]);
#ifdef VERIF_NOSCHED
	/* free-running pass: <dir> <scenario> <mode> */
	{
		int dn = open("/dev/null", O_WRONLY);
		(void) dn;
		execute(argv[2][0], argv[3][0] == 't', stdout);
		return 0;
	}
#endif
	make_refs();
	printf("READY\n");
	fflush(stdout);
	char *line = NULL;
	size_t cap = 0;
	while (getline(&line, &cap, stdin) > 0) {
		char sc, mode;
		int off = 0;
		if (sscanf(line, " %c %c%n", &sc, &mode, &off) < 2)
			break;
		nchoices = 0;
		char *p = line + off;
		char *end;
		for (;;) {
			long v = strtol(p, &end, 10);
			if (end == p)
				break;
			if (nchoices < MAXP)
				choices[nchoices++] = (int) v;
			p = end;
		}
		fflush(stdout);
		pid_t c = fork();
		if (c == 0) {
			int dn = open("/dev/null", O_WRONLY);
			dup2(dn, 2);
			execute(sc, mode == 't', stdout);
			_exit(0);
		}
		int st = 0;
		waitpid(c, &st, 0);
		if (!(WIFEXITED(st) && WEXITSTATUS(st) == 0)) {
			printf("R 0 |  | CRASH status=%d sig=%d | crash\n", WIFEXITED(st) ? WEXITSTATUS(st) : -1, WIFSIGNALED(st) ? WTERMSIG(st) : 0);
			fflush(stdout);
		}
		rmtree(rundir);
	}
	return 0;
}
