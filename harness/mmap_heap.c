/* C19 seam: stream.c is compiled with -Dmmap=verif_mmap so that the stream is
 * loaded into a heap buffer of exactly the file size.  AddressSanitizer then
 * sees any access outside the loaded stream (an mmap'ed region hides over-reads
 * up to the end of the page).
 *
 * ovnisort rewrites the stream with pwrite() and then reads the result back
 * through the mapping (on Linux a private mapping whose pages were not written
 * reflects later changes of the file).  To keep the heap copy faithful to that,
 * pwrite() is defined here too and mirrors every successful write into the
 * heap copy of the same file (matched by device and inode). */
#define _GNU_SOURCE
#include <stdio.h>
#include <stdlib.h>
#include <string.h>
#include <sys/mman.h>
#include <sys/stat.h>
#include <sys/syscall.h>
#include <sys/types.h>
#include <unistd.h>

void *verif_mmap(void *addr, size_t len, int prot, int flags, int fd, off_t off);

#define MAXMAP 64
static struct { dev_t dev; ino_t ino; unsigned char *buf; size_t len; off_t off; } maps[MAXMAP];
static int nmaps;

/* VERIF_SHORT_PWRITE=k:how -- the k-th pwrite() of more than one byte completes only partly (how: 1 = one byte,
 * 2 = half, 3 = all but one byte), as POSIX allows */
static size_t
maybe_short(size_t n)
{
	static int cnt, k = -1, how;
	if (k < 0) {
		const char *e = getenv("VERIF_SHORT_PWRITE");
		k = 0;
		if (e)
			sscanf(e, "%d:%d", &k, &how);
	}
	if (k > 0 && n > 1 && ++cnt == k)
		n = how == 1 ? 1 : (how == 2 ? n / 2 : n - 1);
	return n;
}

ssize_t
pwrite(int fd, const void *src, size_t n, off_t off)
{
	ssize_t w = (ssize_t) syscall(SYS_pwrite64, fd, src, maybe_short(n), off);
	struct stat st;
	if (w > 0 && fstat(fd, &st) == 0) {
		for (int i = 0; i < nmaps; i++) {
			if (maps[i].dev != st.st_dev || maps[i].ino != st.st_ino)
				continue;
			/* intersect [off, off+w) with the mapped window */
			off_t a = off > maps[i].off ? off : maps[i].off;
			off_t b = off + w < maps[i].off + (off_t) maps[i].len ? off + w : maps[i].off + (off_t) maps[i].len;
			if (a < b)
				memcpy(maps[i].buf + (a - maps[i].off), (const unsigned char *) src + (a - off), (size_t) (b - a));
		}
	}
	return w;
}

void *
verif_mmap(void *addr, size_t len, int prot, int flags, int fd, off_t off)
{
	(void) addr; (void) prot; (void) flags;
	unsigned char *p = malloc(len);
	if (p == NULL)
		return MAP_FAILED;
	size_t done = 0;
	while (done < len) {
		ssize_t r = pread(fd, p + done, len - done, off + (off_t) done);
		if (r <= 0)
			break;
		done += (size_t) r;
	}
	struct stat st;
	if (nmaps < MAXMAP && fstat(fd, &st) == 0) {
		maps[nmaps].dev = st.st_dev;
		maps[nmaps].ino = st.st_ino;
		maps[nmaps].buf = p;
		maps[nmaps].len = len;
		maps[nmaps].off = off;
		nmaps++;
	}
	return p;
}
