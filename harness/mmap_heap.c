/* C19 seam: stream.c is compiled with -Dmmap=verif_mmap so that the stream is
 * loaded into a heap buffer of exactly the file size.  AddressSanitizer then
 * sees any access outside the loaded stream (an mmap'ed region hides over-reads
 * up to the end of the page). */
#define _GNU_SOURCE
#include <stdlib.h>
#include <sys/mman.h>
#include <sys/types.h>
#include <unistd.h>

void *verif_mmap(void *addr, size_t len, int prot, int flags, int fd, off_t off);

void *
verif_mmap(void *addr, size_t len, int prot, int flags, int fd, off_t off)
{
	(void) addr; (void) prot; (void) flags;
	unsigned char *p = malloc(len);
	if (p == NULL)
		return MAP_FAILED;
	size_t done = 0;
	while (done < len) {
		ssize_t r = pread(fd, p + done, len - done, off + (off_t) done);
		if (r <= 0)
			break;
		done += (size_t) r;
	}
	return p;
}
