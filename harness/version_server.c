/* E4 (C14): version.h and ovni_version_check_str() driven line by line.
 *   P <string>          -> "P <rc> <maj> <min> <patch>"
 *   C w0 w1 w2 h0 h1 h2 -> "C <0|1>"
 *   V <string>          -> "V <ok|refused|crash>"   (runtime check in a forked child; abort() interposed)
 */
#define _GNU_SOURCE
#include <stdio.h>
#include <stdlib.h>
#include <string.h>
#include <unistd.h>
#include <fcntl.h>
#include <sys/wait.h>
#include "version.h"
#include "ovni.h"

static int in_child;

void
abort(void)
{
	if (in_child)
		_exit(42);
	_exit(43);
}

int
main(void)
{
	char *line = NULL;
	size_t cap = 0;
	int devnull = open("/dev/null", O_WRONLY);
	dup2(devnull, 2);
	while (getline(&line, &cap, stdin) > 0) {
		size_t n = strlen(line);
		if (n && line[n - 1] == '\n')
			line[n - 1] = '\0';
		if (line[0] == 'P') {
			int t[3] = { -7, -7, -7 };
			int rc = version_parse(line + 2, t);
			printf("P %d %d %d %d\n", rc, t[0], t[1], t[2]);
		} else if (line[0] == 'C') {
			int w[3], h[3];
			sscanf(line + 2, "%d %d %d %d %d %d", &w[0], &w[1], &w[2], &h[0], &h[1], &h[2]);
			printf("C %d\n", version_is_compatible(w, h));
		} else if (line[0] == 'V') {
			fflush(stdout);
			pid_t p = fork();
			if (p == 0) {
				in_child = 1;
				ovni_version_check_str(line + 2);
				_exit(0);
			}
			int st = 0;
			waitpid(p, &st, 0);
			if (WIFEXITED(st) && WEXITSTATUS(st) == 0)
				printf("V ok\n");
			else if (WIFEXITED(st) && WEXITSTATUS(st) == 42)
				printf("V refused\n");
			else
				printf("V crash\n");
		} else if (line[0] == 'L') {
			const char *v, *c;
			ovni_version_get(&v, &c);
			printf("L %s\n", v);
		}
		fflush(stdout);
	}
	return 0;
}
