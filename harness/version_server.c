/* E4 (C14): version.h and ovni_version_check_str() driven line by line.
 *   P <string>          -> "P <rc> <maj> <min> <patch>"
 *   C w0 w1 w2 h0 h1 h2 -> "C <0|1>"
 *   V <string>          -> "V <ok|refused|crash>"   (runtime check in a forked child; abort() interposed)
 *   W <s1>|<s2>|...     -> "W <ok|refused|crash> <k>"  the checks one after the other in one process; k = how many returned
 */
#define _GNU_SOURCE
#include <stdio.h>
#include <stdlib.h>
#include <string.h>
#include <unistd.h>
#include <fcntl.h>
#include <sys/wait.h>
#include "version.h"
#include "ovni.h"

static int in_child;

void
abort(void)
{
	if (in_child)
		_exit(42);
	_exit(43);
}

int
main(void)
{
	char *line = NULL;
	size_t cap = 0;
	int devnull = open("/dev/null", O_WRONLY);
	dup2(devnull, 2);
	while (getline(&line, &cap, stdin) > 0) {
		size_t n = strlen(line);
		if (n && line[n - 1] == '\n')
			line[n - 1] = '\0';
		if (line[0] == 'P') {
			int t[3] = { -7, -7, -7 };
			int rc = version_parse(line + 2, t);
			printf("P %d %d %d %d\n", rc, t[0], t[1], t[2]);
		} else if (line[0] == 'C') {
			int w[3], h[3];
			sscanf(line + 2, "%d %d %d %d %d %d", &w[0], &w[1], &w[2], &h[0], &h[1], &h[2]);
			printf("C %d\n", version_is_compatible(w, h));
		} else if (line[0] == 'V') {
			fflush(stdout);
			pid_t p = fork();
			if (p == 0) {
				in_child = 1;
				ovni_version_check_str(line + 2);
				_exit(0);
			}
			int st = 0;
			waitpid(p, &st, 0);
			if (WIFEXITED(st) && WEXITSTATUS(st) == 0)
				printf("V ok\n");
			else if (WIFEXITED(st) && WEXITSTATUS(st) == 42)
				printf("V refused\n");
			else
				printf("V crash\n");
		} else if (line[0] == 'W') {
			fflush(stdout);
			int fds[2];
			if (pipe(fds) != 0)
				_exit(44);
			pid_t p = fork();
			if (p == 0) {
				in_child = 1;
				close(fds[0]);
				char *q = line + 2;
				for (;;) {
					char *bar = strchr(q, '|');
					if (bar)
						*bar = '\0';
					ovni_version_check_str(q);
					if (write(fds[1], "x", 1) != 1)
						_exit(45);
					if (!bar)
						break;
					q = bar + 1;
				}
				_exit(0);
			}
			close(fds[1]);
			int st = 0, k = 0;
			char c;
			while (read(fds[0], &c, 1) == 1)
				k++;
			close(fds[0]);
			waitpid(p, &st, 0);
			if (WIFEXITED(st) && WEXITSTATUS(st) == 0)
				printf("W ok %d\n", k);
			else if (WIFEXITED(st) && WEXITSTATUS(st) == 42)
				printf("W refused %d\n", k);
			else
				printf("W crash %d\n", k);
		} else if (line[0] == 'L') {
			const char *v, *c;
			ovni_version_get(&v, &c);
			printf("L %s\n", v);
		}
		fflush(stdout);
	}
	return 0;
}
