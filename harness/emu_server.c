/* E3: the real emulator as an explicit-state exploration server.
 *
 * The emulator (emu_init, emu_connect, emu_step, emu_finish, player, stream,
 * models, bay, recorder) is the unmodified code of the working tree.  This
 * harness only (1) gives every loaded stream a roomy heap buffer so that events
 * can be appended after start-up, (2) redirects the .prv FILE objects into
 * memory streams so that forked copies do not share a file offset, and (3)
 * checkpoints by fork(): every history is replayed in a child of the pristine
 * initialised process and every probe runs in a grandchild.
 *
 * Protocol (stdin, one command per line):
 *   X <nh> <np> <flags>      followed by nh history lines and np probe lines
 *       event line : E <stream> <dt> <mcv> <payload-hex|-> [<jumbo-hex|->]
 *       finish line: F <lint 0|1>
 *     flags bit0: echo the PRV lines produced by the history
 *   Q                        quit
 * Reply: "H ..." for the history, one "P <i> ..." per probe, then "END".
 */
#define _GNU_SOURCE
#include <errno.h>
#include <fcntl.h>
#include <inttypes.h>
#include <signal.h>
#include <stdio.h>
#include <stdlib.h>
#include <string.h>
#include <sys/mman.h>
#include <sys/stat.h>
#include <sys/wait.h>
#include <unistd.h>
#include <dirent.h>

#include "emu.h"
#include "bay.h"
#include "chan.h"
#include "cpu.h"
#include "loom.h"
#include "proc.h"
#include "thread.h"
#include "stream.h"
#include "trace.h"
#include "player.h"
#include "recorder.h"
#include "pv/pvt.h"
#include "pv/prv.h"
#include "ovni.h"
#include "utlist.h"

#define MAXS 64
#define MAXP 16
#define BUFSZ (1 << 20)

static struct emu *emu;
static struct stream *streams[MAXS];
static int nstreams;
static struct pvt *pvts[MAXP];
static int npvts;
static char *msbuf[MAXP];
static size_t mssize[MAXP];
static size_t msprev[MAXP];
static int64_t cur_clock = 1000;
static int efd = -1; /* captures stderr of the probe */
static FILE *out;

static uint64_t
fnv(uint64_t h, const void *p, size_t n)
{
	const unsigned char *c = p;
	for (size_t i = 0; i < n; i++) {
		h ^= c[i];
		h *= 1099511628211ULL;
	}
	return h;
}

static uint64_t
hval(uint64_t h, struct value *v)
{
	h = fnv(h, &v->type, sizeof(v->type));
	return fnv(h, &v->i, sizeof(v->i));
}

/* Hash of everything generic that can influence future behaviour: all bay
 * channels (value/stack and last value), thread and cpu bookkeeping, and the
 * duplicate-suppression memory of every PRV row. */
static uint64_t
hash_state(void)
{
	uint64_t h = 1469598103934665603ULL;
	for (struct bay_chan *bc = emu->bay.channels; bc; bc = bc->hh.next) {
		struct chan *c = bc->chan;
		h = fnv(h, &c->type, sizeof(c->type));
		if (c->type == CHAN_SINGLE) {
			h = hval(h, &c->data.value);
		} else {
			int n = c->data.stack.n;
			h = fnv(h, &n, sizeof(n));
			for (int i = 0; i < n; i++)
				h = hval(h, &c->data.stack.values[i]);
		}
		h = hval(h, &c->last_value);
	}
	for (struct thread *t = emu->system.threads; t; t = t->gnext) {
		int st = (int) t->state;
		int64_t cg = t->cpu ? t->cpu->gindex : -1;
		h = fnv(h, &st, sizeof(st));
		h = fnv(h, &cg, sizeof(cg));
		h = fnv(h, &t->is_out_of_cpu, sizeof(int));
	}
	for (struct cpu *c = emu->system.cpus; c; c = c->next) {
		h = fnv(h, &c->nthreads, sizeof(c->nthreads));
		struct thread *t;
		DL_FOREACH2(c->threads, t, cpu_next)
			h = fnv(h, &t->gindex, sizeof(t->gindex));
	}
	for (int k = 0; k < npvts; k++) {
		for (struct prv_chan *pc = pvts[k]->prv.channels; pc; pc = pc->hh.next) {
			h = fnv(h, &pc->last_value_set, sizeof(int));
			h = hval(h, &pc->last_value);
		}
	}
	return h;
}

static int
hexval(int c)
{
	if (c >= '0' && c <= '9') return c - '0';
	if (c >= 'a' && c <= 'f') return c - 'a' + 10;
	if (c >= 'A' && c <= 'F') return c - 'A' + 10;
	return -1;
}

static long
unhex(const char *s, uint8_t *dst, size_t max)
{
	if (s == NULL || strcmp(s, "-") == 0)
		return 0;
	size_t n = strlen(s) / 2;
	if (n > max)
		return -1;
	for (size_t i = 0; i < n; i++)
		dst[i] = (uint8_t) (hexval(s[2 * i]) << 4 | hexval(s[2 * i + 1]));
	return (long) n;
}

static void
setup_streams(void)
{
	nstreams = 0;
	for (struct stream *s = emu->trace.streams; s; s = s->next) {
		if (nstreams >= MAXS) {
			fprintf(out, "INITFAIL too many streams\n");
			exit(3);
		}
		uint8_t *nb = calloc(1, BUFSZ);
		memcpy(nb, s->buf, (size_t) s->size);
		munmap(s->buf, (size_t) s->size);
		s->buf = nb;
		streams[nstreams++] = s;
	}
}

static void
setup_prv(void)
{
	npvts = 0;
	for (struct pvt *p = emu->recorder.pvt; p; p = p->hh.next) {
		if (npvts >= MAXP) {
			fprintf(out, "INITFAIL too many pvt\n");
			exit(3);
		}
		int k = npvts++;
		pvts[k] = p;
		fflush(p->prv.file);
		char path[PATH_MAX];
		snprintf(path, sizeof(path), "%s/%s.prv", p->dir, p->name);
		FILE *f = fopen(path, "r");
		char *content = NULL;
		size_t len = 0;
		if (f) {
			content = malloc(1 << 20);
			len = fread(content, 1, 1 << 20, f);
			fclose(f);
		}
		fclose(p->prv.file);
		p->prv.file = open_memstream(&msbuf[k], &mssize[k]);
		if (len)
			fwrite(content, 1, len, p->prv.file);
		fflush(p->prv.file);
		msprev[k] = mssize[k];
		free(content);
	}
}

/* Append one event to a stream and let the real emu_step() consume it. */
static int
inject(int sidx, int64_t dt, const char *mcv, const char *phex, const char *jhex)
{
	static uint8_t jbuf[BUFSZ / 2];
	uint8_t pay[16];
	if (sidx < 0 || sidx >= nstreams)
		return -100;
	struct stream *s = streams[sidx];
	long plen = unhex(phex, pay, sizeof(pay));
	long jlen = -1;
	if (jhex != NULL && jhex[0] != '\0')
		jlen = unhex(jhex, jbuf, sizeof(jbuf));
	if (plen < 0)
		return -101;

	/* Retire the event the player is holding (real player_step: it
	 * advances the previous stream to its end and finds the heap empty) */
	if (emu->player.stream != NULL) {
		int r = player_step(&emu->player);
		if (r != 1)
			return -102;
	}

	cur_clock += dt;
	struct ovni_ev ev;
	memset(&ev, 0, sizeof(ev));
	ev.header.model = (uint8_t) mcv[0];
	ev.header.category = (uint8_t) mcv[1];
	ev.header.value = (uint8_t) mcv[2];
	/* stream clocks are raw: remove the loom offset the emulator adds */
	ev.header.clock = (uint64_t) (cur_clock - s->clock_offset);
	size_t evsize;
	if (jlen >= 0) {
		ev.header.flags = OVNI_EV_JUMBO | 0x03;
		ev.payload.jumbo.size = (uint32_t) jlen;
		evsize = sizeof(ev.header) + 4;
	} else {
		ev.header.flags = plen ? (uint8_t) (plen - 1) : 0;
		memcpy(ev.payload.u8, pay, (size_t) plen);
		evsize = sizeof(ev.header) + (size_t) plen;
	}
	if ((size_t) s->size + evsize + (jlen > 0 ? (size_t) jlen : 0) > BUFSZ)
		return -103;
	memcpy(s->buf + s->size, &ev, evsize);
	s->size += (int64_t) evsize;
	if (jlen > 0) {
		memcpy(s->buf + s->size, jbuf, (size_t) jlen);
		s->size += jlen;
	}
	s->active = 1;
	emu->player.stream = s;

	return emu_step(emu);
}

static void
reopen_outputs(void)
{
	for (int k = 0; k < npvts; k++) {
		struct pvt *p = pvts[k];
		char path[PATH_MAX];
		fflush(p->prv.file);
		snprintf(path, sizeof(path), "%s/%s.prv", p->dir, p->name);
		FILE *f = fopen(path, "w");
		if (f == NULL)
			_exit(97);
		fwrite(msbuf[k], 1, mssize[k], f);
		p->prv.file = f;
		snprintf(path, sizeof(path), "%s/%s.pcf", p->dir, p->name);
		p->pcf.f = fopen(path, "w");
		snprintf(path, sizeof(path), "%s/%s.row", p->dir, p->name);
		p->prf.f = fopen(path, "w");
		if (p->pcf.f == NULL || p->prf.f == NULL)
			_exit(97);
	}
}

static int
do_finish(int lint)
{
	if (emu->player.stream != NULL) {
		int r = player_step(&emu->player);
		if (r != 1)
			return -102;
	}
	emu->args.linter_mode = lint;
	reopen_outputs();
	int r = emu_step(emu);
	if (r != 1)
		return -104;
	return emu_finish(emu);
}

static void
capture_begin(void)
{
	fflush(stderr);
	if (ftruncate(efd, 0) != 0) {}
	lseek(efd, 0, SEEK_SET);
}

/* First ERROR/FATAL line of the captured stderr, sanitised */
static void
capture_msg(char *dst, size_t n)
{
	static char buf[16384];
	dst[0] = '\0';
	fflush(stderr);
	off_t len = lseek(efd, 0, SEEK_END);
	if (len <= 0)
		return;
	if (len > (off_t) sizeof(buf) - 1)
		len = sizeof(buf) - 1;
	lseek(efd, 0, SEEK_SET);
	ssize_t r = read(efd, buf, (size_t) len);
	if (r <= 0)
		return;
	buf[r] = '\0';
	char *p = strstr(buf, "ERROR:");
	char *q = strstr(buf, "FATAL:");
	if (q && (!p || q < p))
		p = q;
	if (!p)
		return;
	size_t i = 0;
	for (; p[i] && p[i] != '\n' && i + 1 < n; i++)
		dst[i] = (p[i] == '|' || p[i] == ';') ? '/' : p[i];
	dst[i] = '\0';
}

static void
print_new_lines(void)
{
	int count = 0;
	for (int k = 0; k < npvts; k++) {
		fflush(pvts[k]->prv.file);
		char *p = msbuf[k] + msprev[k];
		char *end = msbuf[k] + mssize[k];
		while (p < end) {
			char *nl = memchr(p, '\n', (size_t) (end - p));
			if (!nl)
				break;
			/* 2:0:1:1:row:time:type:value */
			long row, ty;
			long long tm, val;
			if (sscanf(p, "2:0:1:1:%ld:%lld:%ld:%lld", &row, &tm, &ty, &val) == 4) {
				fprintf(out, "%s%s:%ld:%lld:%ld:%lld", count ? ";" : "",
						pvts[k]->name, row, tm, ty, val);
				count++;
			}
			p = nl + 1;
		}
		msprev[k] = mssize[k];
	}
}

static void
print_files(void)
{
	DIR *d = opendir(emu->args.tracedir);
	if (!d)
		return;
	struct dirent *de;
	while ((de = readdir(d)) != NULL) {
		const char *n = de->d_name;
		size_t l = strlen(n);
		if (l < 5)
			continue;
		const char *ext = n + l - 4;
		if (strcmp(ext, ".prv") && strcmp(ext, ".pcf") && strcmp(ext, ".row"))
			continue;
		char path[PATH_MAX];
		snprintf(path, sizeof(path), "%s/%s", emu->args.tracedir, n);
		FILE *f = fopen(path, "r");
		if (!f)
			continue;
		fseek(f, 0, SEEK_END);
		long sz = ftell(f);
		fseek(f, 0, SEEK_SET);
		char *b = malloc((size_t) sz + 1);
		size_t r = fread(b, 1, (size_t) sz, f);
		fclose(f);
		fprintf(out, "FILE %s %zu\n", n, r);
		fwrite(b, 1, r, out);
		fprintf(out, "\n");
		free(b);
	}
	closedir(d);
}

struct line {
	char kind;
	int sidx;
	long long dt;
	char mcv[8];
	char *phex;
	char *jhex;
	int lint;
	char *raw;
};

static int
parse_line(char *l, struct line *o)
{
	memset(o, 0, sizeof(*o));
	o->raw = l;
	char *save = NULL;
	char *k = strtok_r(l, " \n", &save);
	if (!k)
		return -1;
	o->kind = k[0];
	if (k[0] == 'F') {
		char *a = strtok_r(NULL, " \n", &save);
		o->lint = a ? atoi(a) : 0;
		return 0;
	}
	if (k[0] != 'E')
		return -1;
	char *a = strtok_r(NULL, " \n", &save);
	char *b = strtok_r(NULL, " \n", &save);
	char *c = strtok_r(NULL, " \n", &save);
	char *d = strtok_r(NULL, " \n", &save);
	char *e = strtok_r(NULL, " \n", &save);
	if (!a || !b || !c || !d || strlen(c) != 3)
		return -1;
	o->sidx = atoi(a);
	o->dt = atoll(b);
	memcpy(o->mcv, c, 4);
	o->phex = d;
	o->jhex = e;
	return 0;
}

static int
run_line(struct line *l)
{
	if (l->kind == 'F')
		return do_finish(l->lint);
	return inject(l->sidx, l->dt, l->mcv, l->phex, l->jhex);
}

static void
status_str(int st, char *dst, size_t n)
{
	if (WIFSIGNALED(st))
		snprintf(dst, n, "sig%d", WTERMSIG(st));
	else
		snprintf(dst, n, "exit%d", WEXITSTATUS(st));
}

static void
do_expand(int nh, int np, int flags)
{
	char **hl = calloc((size_t) nh + 1, sizeof(char *));
	char **pl = calloc((size_t) np + 1, sizeof(char *));
	size_t cap = 0;
	for (int i = 0; i < nh; i++) {
		hl[i] = NULL;
		cap = 0;
		if (getline(&hl[i], &cap, stdin) < 0)
			exit(4);
	}
	for (int i = 0; i < np; i++) {
		pl[i] = NULL;
		cap = 0;
		if (getline(&pl[i], &cap, stdin) < 0)
			exit(4);
	}
	fflush(out);
	pid_t c1 = fork();
	if (c1 < 0) {
		fprintf(out, "H forkfail\nEND\n");
		fflush(out);
		return;
	}
	if (c1 == 0) {
		dup2(efd, 2);
		struct line ln;
		int ok = 1;
		for (int i = 0; i < nh; i++) {
			capture_begin();
			if (parse_line(hl[i], &ln) != 0) {
				fprintf(out, "H badline %d\nEND\n", i);
				fflush(out);
				_exit(0);
			}
			int r = run_line(&ln);
			if (r != 0) {
				char msg[512];
				capture_msg(msg, sizeof(msg));
				fprintf(out, "H fail %d %d |%s\nEND\n", i, r, msg);
				fflush(out);
				_exit(0);
			}
		}
		if (ok) {
			fprintf(out, "H ok %016" PRIx64 " %" PRIi64 " |", hash_state(), cur_clock);
			if (flags & 1)
				print_new_lines();
			else
				for (int k = 0; k < npvts; k++) {
					fflush(pvts[k]->prv.file);
					msprev[k] = mssize[k];
				}
			fprintf(out, "\n");
		}
		fflush(out);
		for (int i = 0; i < np; i++) {
			pid_t c2 = fork();
			if (c2 == 0) {
				capture_begin();
				if (parse_line(pl[i], &ln) != 0) {
					fprintf(out, "P %d badline\n", i);
					fflush(out);
					_exit(0);
				}
				int r = run_line(&ln);
				char msg[512];
				capture_msg(msg, sizeof(msg));
				if (ln.kind == 'F') {
					fprintf(out, "P %d %s %d |%s\n", i, r == 0 ? "ok" : "fail", r, msg);
					print_files();
					fprintf(out, "ENDFILES\n");
				} else if (r == 0) {
					fprintf(out, "P %d ok %016" PRIx64 " |", i, hash_state());
					print_new_lines();
					fprintf(out, "|\n");
				} else {
					fprintf(out, "P %d fail %d |", i, r);
					print_new_lines();
					fprintf(out, "|%s\n", msg);
				}
				fflush(out);
				_exit(0);
			}
			int st = 0;
			waitpid(c2, &st, 0);
			if (!(WIFEXITED(st) && WEXITSTATUS(st) == 0)) {
				char s[32], msg[512];
				status_str(st, s, sizeof(s));
				capture_msg(msg, sizeof(msg));
				fprintf(out, "P %d crash %s |%s\n", i, s, msg);
				fflush(out);
			}
		}
		fprintf(out, "END\n");
		fflush(out);
		_exit(0);
	}
	int st = 0;
	waitpid(c1, &st, 0);
	if (!(WIFEXITED(st) && WEXITSTATUS(st) == 0)) {
		char s[32], msg[512];
		status_str(st, s, sizeof(s));
		capture_msg(msg, sizeof(msg));
		fprintf(out, "H crash %s |%s\nEND\n", s, msg);
		fflush(out);
	}
	for (int i = 0; i < nh; i++)
		free(hl[i]);
	for (int i = 0; i < np; i++)
		free(pl[i]);
	free(hl);
	free(pl);
}

int
main(int argc, char *argv[])
{
	out = stdout;
	setvbuf(out, NULL, _IOFBF, 1 << 16);
	progname_set("ovniemu");
	efd = memfd_create("verif-stderr", 0);
	if (efd < 0) {
		perror("memfd_create");
		return 2;
	}
	int saved2 = dup(2);
	dup2(efd, 2);
	emu = calloc(1, sizeof(struct emu));
	int ok = emu_init(emu, argc, argv) == 0 && emu_connect(emu) == 0;
	if (!ok) {
		char msg[512];
		capture_msg(msg, sizeof(msg));
		fprintf(out, "INITFAIL %s\n", msg);
		fflush(out);
		return 3;
	}
	dup2(saved2, 2);
	close(saved2);
	setup_streams();
	setup_prv();
	fprintf(out, "READY %d %d\n", nstreams, npvts);
	for (int i = 0; i < nstreams; i++)
		fprintf(out, "S %d %s\n", i, streams[i]->relpath);
	for (int k = 0; k < npvts; k++)
		fprintf(out, "V %d %s %ld\n", k, pvts[k]->name, pvts[k]->prv.nrows);
	for (struct thread *t = emu->system.threads; t; t = t->gnext)
		fprintf(out, "T %" PRIi64 " %d %d %s\n", t->gindex, t->tid, t->proc->pid, t->proc->id);
	for (struct cpu *c = emu->system.cpus; c; c = c->next)
		fprintf(out, "C %" PRIi64 " %d %d %d %s\n", c->gindex, c->index, c->phyid, c->is_virtual, c->loom->id);
	/* initial PRV content (header + anything emitted while connecting) */
	fprintf(out, "I |");
	for (int k = 0; k < npvts; k++)
		msprev[k] = 0;
	print_new_lines();
	fprintf(out, "\nENDREADY\n");
	fflush(out);

	char *line = NULL;
	size_t cap = 0;
	while (getline(&line, &cap, stdin) > 0) {
		if (line[0] == 'Q')
			break;
		if (line[0] == 'X') {
			int nh, np, fl = 0;
			if (sscanf(line + 1, "%d %d %d", &nh, &np, &fl) < 2) {
				fprintf(out, "ERR badcmd\n");
				fflush(out);
				continue;
			}
			do_expand(nh, np, fl);
		} else {
			fprintf(out, "ERR unknown\n");
			fflush(out);
		}
	}
	return 0;
}
