/* C13 helper: finds task-type labels whose colour id lies at the edge of the 31-bit range the emulator maps the
 * label hash into (the tree's own task_get_type_gid is used, so the labels stay boundary cases whatever the hash is).
 * Prints "<label> <gid>" lines; usage: gid_search <how many> */
#include <stdio.h>
#include <stdlib.h>
#include <stdint.h>
#include "task.h"

int
main(int argc, char *argv[])
{
	int want = argc > 1 ? atoi(argv[1]) : 1;
	char label[64];
	for (long i = 0; i < 60000000L && want > 0; i++) {
		snprintf(label, sizeof(label), "edge_%ld", i);
		uint32_t g = task_get_type_gid(label);
		if (g < 2000u || g > 0x7fffffffu) {
			printf("%s %u\n", label, g);
			want--;
		}
	}
	return 0;
}
