/* E5 (C09, C10): a traced program whose libovni calls are given on the command
 * line; it is run under a syscall tracer that kills it, or fails one call, at
 * every file-system syscall of the runtime phase.
 *
 * libovni is compiled into this translation unit from the working tree with a
 * small staging buffer (automatic flushes with little data).  Owned here:
 * the clock (deterministic), the order in which readdir() returns entries
 * (VERIF_READDIR=json-first|obs-first), and a sentinel syscall that marks the
 * start of the runtime phase.  Real pthreads, one per ovni thread; the main
 * thread hands out one operation at a time, so the serialisation is the order of
 * the command line.
 *
 * usage: crash_driver <op>...        op = <T>:<what>   T in A,B (tid 101, 102)
 *   pinit | pfini | init | x | e | ev<k> | j<n> | f | af | as | abig | free
 * (the main thread issues no runtime call, so every runtime syscall belongs to a worker)
 */
#define _GNU_SOURCE
#include <dirent.h>
#include <dlfcn.h>
#include <errno.h>
#include <pthread.h>
#include <semaphore.h>
#include <stdio.h>
#include <stdlib.h>
#include <string.h>
#include <time.h>
#include <unistd.h>
#include <fcntl.h>
#include <sys/stat.h>

#include "ovni.h"
#ifdef VERIF_BUFSZ
#undef OVNI_MAX_EV_BUF
#define OVNI_MAX_EV_BUF (VERIF_BUFSZ)
#endif
#include VERIF_OVNI_C

static unsigned long long fake_ns = 100000;

int
clock_gettime(clockid_t id, struct timespec *tp)
{
	(void) id;
	unsigned long long v = __atomic_add_fetch(&fake_ns, 5, __ATOMIC_SEQ_CST);
	tp->tv_sec = (time_t) (v / 1000000000ULL);
	tp->tv_nsec = (long) (v % 1000000000ULL);
	return 0;
}

/* VERIF_SHORTWRITE=k:how  -- the k-th write() of more than one byte to a regular descriptor completes only partly
 * (how: 1 = one byte, 2 = half, 3 = all but one byte), as POSIX allows; a sentinel syscall marks that it happened */
#include <sys/syscall.h>
static size_t
maybe_short(int fd, size_t n)
{
	static int cnt, k = -1, how;
	if (k < 0) {
		const char *e = getenv("VERIF_SHORTWRITE");
		k = 0;
		if (e)
			sscanf(e, "%d:%d", &k, &how);
	}
	if (k > 0 && fd > 2 && n > 1 && __atomic_add_fetch(&cnt, 1, __ATOMIC_SEQ_CST) == k) {
		n = how == 1 ? 1 : (how == 2 ? n / 2 : n - 1);
		syscall(SYS_write, -1, "VERIF-SHORT", 11);
	}
	return n;
}

/* VERIF_DISKFULL=k:how -- the disk fills up during the k-th write of more than one byte: that write completes partly
 * (as above) and every later write to a file fails with ENOSPC */
static int
disk_full(int fd, size_t *n)
{
	static int cnt, k = -1, how, full;
	if (k < 0) {
		const char *e = getenv("VERIF_DISKFULL");
		k = 0;
		if (e)
			sscanf(e, "%d:%d", &k, &how);
	}
	if (k <= 0 || fd <= 2)
		return 0;
	if (full) {
		errno = ENOSPC;
		return -1;
	}
	if (*n > 1 && __atomic_add_fetch(&cnt, 1, __ATOMIC_SEQ_CST) == k) {
		*n = how == 1 ? 1 : (how == 2 ? *n / 2 : *n - 1);
		full = 1;
		syscall(SYS_write, -1, "VERIF-DISKFULL", 14);
	}
	return 0;
}

ssize_t
write(int fd, const void *b, size_t n)
{
	if (disk_full(fd, &n) != 0)
		return -1;
	return (ssize_t) syscall(SYS_write, fd, b, maybe_short(fd, n));
}

/* the same for a vectored write, should the runtime ever use one */
#include <sys/uio.h>
ssize_t
writev(int fd, const struct iovec *iov, int cnt)
{
	size_t tot = 0;
	for (int i = 0; i < cnt; i++)
		tot += iov[i].iov_len;
	/* VERIF_SHORTWRITEV=k:how -- the k-th vectored write completes partly, at any byte (the tracer can only drop whole
	 * segments of a writev without touching the caller's memory) */
	static int vcnt, vk = -1, vhow;
	if (vk < 0) {
		const char *e = getenv("VERIF_SHORTWRITEV");
		vk = 0;
		if (e)
			sscanf(e, "%d:%d", &vk, &vhow);
	}
	size_t left = maybe_short(fd, tot);
	if (vk > 0 && fd > 2 && tot > 1 && __atomic_add_fetch(&vcnt, 1, __ATOMIC_SEQ_CST) == vk) {
		left = vhow == 1 ? 1 : (vhow == 2 ? tot / 2 : (vhow == 3 ? tot - 1 : (size_t) vhow));
		if (left >= tot)
			left = tot - 1;
		syscall(SYS_write, -1, "VERIF-SHORT", 11);
	}
	struct iovec v[16];
	int m = 0;
	for (int i = 0; i < cnt && left > 0 && m < 16; i++) {
		v[m] = iov[i];
		if (v[m].iov_len > left)
			v[m].iov_len = left;
		left -= v[m].iov_len;
		m++;
	}
	return (ssize_t) syscall(SYS_writev, fd, v, m);
}

/* ... and for the other calls that move file data and may stop early */
#include <sys/sendfile.h>
ssize_t
sendfile(int out, int in, off_t *off, size_t n)
{
	return (ssize_t) syscall(SYS_sendfile, out, in, off, maybe_short(out, n));
}

ssize_t
copy_file_range(int in, off64_t *offin, int out, off64_t *offout, size_t n, unsigned flags)
{
	return (ssize_t) syscall(SYS_copy_file_range, in, offin, out, offout, maybe_short(out, n), flags);
}

ssize_t
pwrite(int fd, const void *b, size_t n, off_t o)
{
	return (ssize_t) syscall(SYS_pwrite64, fd, b, maybe_short(fd, n), o);
}

/* readdir in a chosen order */
struct dcache {
	DIR *dir;
	struct dirent ents[64];
	int n, pos;
};
static struct dcache dc[8];

static int
rank(const char *name, const char *mode)
{
	int json = strcmp(name, "stream.json") == 0;
	int obs = strcmp(name, "stream.obs") == 0;
	if (!mode)
		return 0;
	if (strcmp(mode, "json-first") == 0)
		return json ? 0 : (obs ? 1 : 2);
	return obs ? 0 : (json ? 1 : 2);
}

struct dirent *
readdir(DIR *dir)
{
	static struct dirent *(*real)(DIR *);
	if (!real)
		real = dlsym(RTLD_NEXT, "readdir");
	const char *mode = getenv("VERIF_READDIR");
	if (!mode)
		return real(dir);
	struct dcache *c = NULL;
	for (int i = 0; i < 8; i++)
		if (dc[i].dir == dir)
			c = &dc[i];
	if (!c) {
		for (int i = 0; i < 8; i++)
			if (dc[i].dir == NULL) {
				c = &dc[i];
				break;
			}
		if (!c)
			return real(dir);
		c->dir = dir;
		c->n = c->pos = 0;
		struct dirent *e;
		while ((e = real(dir)) != NULL && c->n < 64)
			c->ents[c->n++] = *e;
		for (int i = 0; i < c->n; i++)
			for (int j = i + 1; j < c->n; j++)
				if (rank(c->ents[j].d_name, mode) < rank(c->ents[i].d_name, mode)) {
					struct dirent t = c->ents[i];
					c->ents[i] = c->ents[j];
					c->ents[j] = t;
				}
	}
	if (c->pos >= c->n) {
		c->dir = NULL;
		return NULL;
	}
	return &c->ents[c->pos++];
}

/* ---- one worker per ovni thread ---- */
struct worker {
	pthread_t th;
	sem_t go, done;
	const char *op;
	int tid;
	int cpu;
	int quit;
	unsigned seq;
};

static void
emit_ev(const char *mcv, const void *p, int n)
{
	struct ovni_ev ev = {0};
	ovni_ev_set_clock(&ev, ovni_clock_now());
	ovni_ev_set_mcv(&ev, mcv);
	if (n)
		ovni_payload_add(&ev, p, n);
	ovni_ev_emit(&ev);
}

/* pid of the traced process; thread ids are pidbase (A and, later, C), + 2 (B), + 3 (D) (VERIF_PIDBASE: another process of the same loom) */
static int pidbase = 100;

static void
do_op(struct worker *w, const char *op)
{
	static uint8_t buf[1 << 16];
	w->seq++;
	if (strcmp(op, "pinit") == 0) {
		ovni_proc_init(1, "L", pidbase);
	} else if (strcmp(op, "pfini") == 0) {
		ovni_proc_fini();
	} else if (strcmp(op, "init") == 0) {
		ovni_thread_init(w->tid);
		ovni_add_cpu(0, 0);
		ovni_add_cpu(1, 1);
		ovni_add_cpu(2, 2);
		ovni_add_cpu(3, 3);
		ovni_add_cpu(4, 4);
		ovni_add_cpu(5, 5);
	} else if (strcmp(op, "x") == 0) {
		struct { int32_t cpu, tid; uint64_t tag; } __attribute__((packed)) x = { w->cpu + (pidbase == 100 ? 0 : 3), w->tid, 0 };
		emit_ev("OHx", &x, 16);
	} else if (strcmp(op, "e") == 0) {
		emit_ev("OHe", NULL, 0);
	} else if (strncmp(op, "ev", 2) == 0) {
		int k = atoi(op + 2);
		memset(buf, (int) w->seq, 16);
		emit_ev("OB.", buf, k);
	} else if (op[0] == 'j') {
		long n = atol(op + 1);
		struct ovni_ev ev = {0};
		memset(buf, (int) w->seq, (size_t) n);
		ovni_ev_set_clock(&ev, ovni_clock_now());
		ovni_ev_set_mcv(&ev, "OB.");
		ovni_ev_jumbo_emit(&ev, buf, (uint32_t) n);
	} else if (strcmp(op, "f") == 0) {
		ovni_flush();
	} else if (strcmp(op, "af") == 0) {
		ovni_attr_flush();
	} else if (strcmp(op, "abig") == 0) {
		/* metadata larger than a stdio buffer: the JSON is written in several chunks */
		static char big[6001];
		memset(big, 'm', sizeof(big) - 1);
		ovni_attr_set_str("verif.big", big);
	} else if (strcmp(op, "cd") == 0) {
		/* the program changes its working directory (nothing the tracing protocol forbids) */
		mkdir("elsewhere", 0755);
		if (chdir("elsewhere") != 0)
			_exit(3);
	} else if (strcmp(op, "as") == 0) {
		ovni_attr_set_double("verif.counter", (double) w->seq);
	} else if (strcmp(op, "free") == 0) {
		ovni_thread_free();
	}
}

/* The tracer counts syscall occurrences per thread: make this thread's counters start above the
 * ones the main thread used while the program was being loaded, so that low occurrence numbers
 * are not taken by the loader */
static void
burn(void)
{
	struct stat st;
	for (int i = 0; i < 24; i++) {
		if (stat("/verif-nonexistent", &st)) {}
		int fd = open("/verif-nonexistent", O_RDONLY);
		(void) fd;
		if (read(-1, &st, 1)) {}
		if (write(-1, "burn", 4)) {}
		close(-1);
		mkdir("", 0755);
		unlink("");
		rmdir("");
	}
}

static void *
worker_main(void *arg)
{
	struct worker *w = arg;
	sem_post(&w->done);
	for (;;) {
		sem_wait(&w->go);
		if (w->quit)
			break;
		do_op(w, w->op);
		sem_post(&w->done);
	}
	return NULL;
}

int
main(int argc, char *argv[])
{
	struct worker W[4];
	memset(W, 0, sizeof(W));
	if (getenv("VERIF_PIDBASE"))
		pidbase = atoi(getenv("VERIF_PIDBASE"));
	/* thread A is the main thread itself, B and C are workers; C traces under A's tid (a thread id used again after
	 * its first owner ended, as the kernel does) */
	/* D is a third concurrent thread with its own id */
	for (int i = 0; i < 4; i++) {
		/* the initial thread's id is the process id, as in every real program */
		W[i].tid = pidbase + (i == 1 ? 2 : (i == 3 ? 3 : 0));
		W[i].cpu = i == 1 ? 1 : (i == 3 ? 2 : 0);
		sem_init(&W[i].go, 0, 0);
		sem_init(&W[i].done, 0, 0);
	}
	for (int i = 1; i < 4; i++) {
		pthread_create(&W[i].th, NULL, worker_main, &W[i]);
		sem_wait(&W[i].done); /* the worker is parked before the runtime phase starts */
	}
	/* sentinel: everything after this syscall belongs to the runtime phase */
	if (write(-1, "VERIF-START", 11) < 0) {}
	for (int a = 1; a < argc; a++) {
		const char *op = argv[a];
		if (strlen(op) < 3 || op[1] != ':')
			continue;
		if (op[0] != 'B' && op[0] != 'C' && op[0] != 'D') {
			do_op(&W[0], op + 2);
			continue;
		}
		struct worker *w = &W[op[0] == 'B' ? 1 : (op[0] == 'C' ? 2 : 3)];
		w->op = op + 2;
		sem_post(&w->go);
		sem_wait(&w->done);
	}
	if (write(-1, "VERIF-END", 9) < 0) {}
	for (int i = 1; i < 4; i++) {
		W[i].quit = 1;
		sem_post(&W[i].go);
		pthread_join(W[i].th, NULL);
	}
	return 0;
}
