/* E5 tracer: runs a (multi-threaded) program under ptrace, logs every file-system
 * syscall in a strace-like line format, and can
 *     kill:N      SIGKILL the whole process right before the N-th logged syscall of the
 *                 runtime phase is executed (the call does not execute), or
 *     err:N:E     make that syscall fail with errno E without executing it.
 * The runtime phase starts after the sentinel write(-1, "VERIF-START", 11).  N counts
 * logged syscalls of ALL threads in the order they are entered (the driver runs one
 * thread at a time, so that order is deterministic).
 *
 * usage: killat <logfile> <-|kill:N|err:N:ERRNO[,err:M:ERRNO|,kill:M ...]> <program> [args...]
 * exit status: the program's (128+signal if it died by a signal; 137 after kill:N).
 *
 * (Replaces `strace -e inject=...:when=N`, whose occurrence counters are per thread:
 * with a warm-up thread every low-numbered point was hit in the warm-up instead.)
 */
#define _GNU_SOURCE
#include <errno.h>
#include <fcntl.h>
#include <signal.h>
#include <stdint.h>
#include <stdio.h>
#include <stdlib.h>
#include <string.h>
#include <sys/ptrace.h>
#include <sys/syscall.h>
#include <sys/types.h>
#include <sys/user.h>
#include <sys/wait.h>
#include <unistd.h>

#ifndef PTRACE_GET_SYSCALL_INFO
#define PTRACE_GET_SYSCALL_INFO 0x420e
#endif
struct sc_info {
	uint8_t op; /* 1 entry, 2 exit */
	uint8_t pad[3];
	uint32_t arch;
	uint64_t ip, sp;
	union {
		struct { uint64_t nr, args[6]; } entry;
		struct { int64_t rval; uint8_t is_error; } exit;
	};
};

static const struct { long nr; const char *name; } SC[] = {
	{ SYS_mkdir, "mkdir" }, { SYS_openat, "openat" }, { SYS_write, "write" }, { SYS_read, "read" },
	{ SYS_close, "close" }, { SYS_newfstatat, "newfstatat" }, { SYS_getdents64, "getdents64" },
	{ SYS_unlink, "unlink" }, { SYS_rmdir, "rmdir" }, { SYS_fdatasync, "fdatasync" },
	/* what a rewritten runtime might use instead: other ways to write, rename, remove, create and sync */
	{ SYS_writev, "writev" }, { SYS_pwrite64, "pwrite64" }, { SYS_pwritev, "pwritev" }, { SYS_pwritev2, "pwritev2" },
	{ SYS_rename, "rename" }, { SYS_renameat, "renameat" }, { SYS_renameat2, "renameat2" },
	{ SYS_unlinkat, "unlinkat" }, { SYS_mkdirat, "mkdirat" }, { SYS_open, "open" }, { SYS_creat, "creat" },
	{ SYS_link, "link" }, { SYS_linkat, "linkat" }, { SYS_symlink, "symlink" }, { SYS_symlinkat, "symlinkat" },
	{ SYS_truncate, "truncate" }, { SYS_ftruncate, "ftruncate" }, { SYS_fsync, "fsync" }, { SYS_fallocate, "fallocate" },
	{ SYS_sendfile, "sendfile" }, { SYS_copy_file_range, "copy_file_range" },
	/* where the process stands in the file system */
	{ SYS_getcwd, "getcwd" }, { SYS_chdir, "chdir" },
};
#define NSC ((int) (sizeof(SC) / sizeof(SC[0])))

static const struct { int e; const char *n, *d; } ERR[] = {
	{ EACCES, "EACCES", "Permission denied" }, { ENOSPC, "ENOSPC", "No space left on device" },
	{ EMFILE, "EMFILE", "Too many open files" }, { EIO, "EIO", "Input/output error" },
	{ EEXIST, "EEXIST", "File exists" }, { ENOENT, "ENOENT", "No such file or directory" },
	{ EBADF, "EBADF", "Bad file descriptor" }, { ENOTEMPTY, "ENOTEMPTY", "Directory not empty" },
	{ EISDIR, "EISDIR", "Is a directory" }, { ENOTDIR, "ENOTDIR", "Not a directory" },
	{ EINTR, "EINTR", "Interrupted system call" }, { EFBIG, "EFBIG", "File too large" },
	{ EXDEV, "EXDEV", "Invalid cross-device link" }, { ERANGE, "ERANGE", "Numerical result out of range" },
};
#define NERR ((int) (sizeof(ERR) / sizeof(ERR[0])))

#define MAXT 16
static struct tstate {
	pid_t tid;
	int in_sys;	/* between entry and exit of a logged syscall */
	int sc;		/* index into SC */
	char args[600];
	int inject;	/* errno to return, 0 = none */
} T[MAXT];
static int nT;
static FILE *lg;
static int runtime, counter;
/* up to MAXACT actions, comma separated on the command line: kill:N, err:N:ERRNO, short:N:HOW (the N-th call, a write, is
 * asked for fewer bytes: HOW 1 = one byte, 2 = half, 3 = all but one) or full:N:HOW (the disk fills up during the N-th call:
 * it is shortened like that and every later write to a file fails with ENOSPC) (mode: 1 kill, 2 err, 3 short, 4 full) */
static int disk_is_full;
#define MAXACT 4
static struct { int target, mode, err; } act[MAXACT];
static int nact;
static pid_t leader;

static struct tstate *
ts(pid_t tid)
{
	for (int i = 0; i < nT; i++)
		if (T[i].tid == tid)
			return &T[i];
	if (nT >= MAXT) {
		fprintf(stderr, "killat: too many threads\n");
		exit(3);
	}
	memset(&T[nT], 0, sizeof(T[nT]));
	T[nT].tid = tid;
	return &T[nT++];
}

static void
rdmem(pid_t tid, uint64_t addr, void *dst, size_t n)
{
	char p[64];
	memset(dst, 0, n);
	snprintf(p, sizeof(p), "/proc/%d/mem", tid);
	int fd = open(p, O_RDONLY);
	if (fd < 0)
		return;
	if (pread(fd, dst, n, (off_t) addr) < 0) {}
	close(fd);
}

static void
rdstr(pid_t tid, uint64_t addr, char *dst, size_t n)
{
	rdmem(tid, addr, dst, n - 1);
	dst[n - 1] = 0;
}

static void
esc(char *out, size_t on, const unsigned char *b, size_t n)
{
	size_t o = 0;
	for (size_t i = 0; i < n && o + 6 < on; i++) {
		unsigned char c = b[i];
		if (c == '\n') o += (size_t) snprintf(out + o, on - o, "\\n");
		else if (c == '"') o += (size_t) snprintf(out + o, on - o, "\\\"");
		else if (c == '\\') o += (size_t) snprintf(out + o, on - o, "\\\\");
		else if (c >= 32 && c < 127) out[o++] = (char) c;
		else o += (size_t) snprintf(out + o, on - o, "\\%o", c);
	}
	out[o] = 0;
}

static void
oflags(char *out, size_t n, uint64_t f)
{
	const char *acc = (f & O_ACCMODE) == O_WRONLY ? "O_WRONLY" : ((f & O_ACCMODE) == O_RDWR ? "O_RDWR" : "O_RDONLY");
	snprintf(out, n, "%s%s%s%s%s%s%s", acc, (f & O_CREAT) ? "|O_CREAT" : "", (f & O_TRUNC) ? "|O_TRUNC" : "",
			(f & O_APPEND) ? "|O_APPEND" : "", (f & O_DIRECTORY) ? "|O_DIRECTORY" : "", (f & O_CLOEXEC) ? "|O_CLOEXEC" : "",
			(f & O_NONBLOCK) ? "|O_NONBLOCK" : "");
}

static void
fmt_args(struct tstate *t, const struct sc_info *si)
{
	const uint64_t *a = si->entry.args;
	char s[300], e[200], fl[120];
	switch (SC[t->sc].nr) {
	case SYS_mkdir:
		rdstr(t->tid, a[0], s, sizeof(s));
		snprintf(t->args, sizeof(t->args), "\"%s\", 0%llo", s, (unsigned long long) a[1]);
		break;
	case SYS_openat:
		rdstr(t->tid, a[1], s, sizeof(s));
		oflags(fl, sizeof(fl), a[2]);
		if (a[2] & O_CREAT)
			snprintf(t->args, sizeof(t->args), "AT_FDCWD, \"%s\", %s, 0%llo", s, fl, (unsigned long long) a[3]);
		else
			snprintf(t->args, sizeof(t->args), "AT_FDCWD, \"%s\", %s", s, fl);
		break;
	case SYS_write: {
		unsigned char b[16];
		size_t n = a[2] < 16 ? (size_t) a[2] : 16;
		rdmem(t->tid, a[1], b, n);
		esc(e, sizeof(e), b, n);
		snprintf(t->args, sizeof(t->args), "%d, \"%s\"%s, %llu", (int) a[0], e, a[2] > 16 ? "..." : "", (unsigned long long) a[2]);
		break;
	}
	case SYS_read:
		snprintf(t->args, sizeof(t->args), "%d, 0x%llx, %llu", (int) a[0], (unsigned long long) a[1], (unsigned long long) a[2]);
		break;
	case SYS_close:
	case SYS_fdatasync:
		snprintf(t->args, sizeof(t->args), "%d", (int) a[0]);
		break;
	case SYS_newfstatat:
		rdstr(t->tid, a[1], s, sizeof(s));
		if ((int) a[0] == AT_FDCWD)
			snprintf(t->args, sizeof(t->args), "AT_FDCWD, \"%s\", {...}, %d", s, (int) a[3]);
		else
			snprintf(t->args, sizeof(t->args), "%d, \"%s\", {...}, %d", (int) a[0], s, (int) a[3]);
		break;
	case SYS_getdents64:
		snprintf(t->args, sizeof(t->args), "%d, 0x%llx, %llu", (int) a[0], (unsigned long long) a[1], (unsigned long long) a[2]);
		break;
	case SYS_unlink:
	case SYS_rmdir:
		rdstr(t->tid, a[0], s, sizeof(s));
		snprintf(t->args, sizeof(t->args), "\"%s\"", s);
		break;
	case SYS_writev:
	case SYS_pwritev:
	case SYS_pwritev2: {
		/* fd, first bytes of the first segment, total length */
		struct { uint64_t base, len; } iov[16];
		size_t cnt = a[2] < 16 ? (size_t) a[2] : 16, tot = 0;
		unsigned char b[16];
		rdmem(t->tid, a[1], iov, cnt * sizeof(iov[0]));
		for (size_t i = 0; i < cnt; i++)
			tot += (size_t) iov[i].len;
		size_t n = cnt && iov[0].len < 16 ? (size_t) iov[0].len : (cnt ? 16 : 0);
		if (n)
			rdmem(t->tid, iov[0].base, b, n);
		esc(e, sizeof(e), b, n);
		snprintf(t->args, sizeof(t->args), "%d, \"%s\"..., %llu", (int) a[0], e, (unsigned long long) tot);
		break;
	}
	case SYS_pwrite64: {
		unsigned char b[16];
		size_t n = a[2] < 16 ? (size_t) a[2] : 16;
		rdmem(t->tid, a[1], b, n);
		esc(e, sizeof(e), b, n);
		snprintf(t->args, sizeof(t->args), "%d, \"%s\"%s, %llu", (int) a[0], e, a[2] > 16 ? "..." : "", (unsigned long long) a[2]);
		break;
	}
	case SYS_rename:
	case SYS_link:
	case SYS_symlink: {
		char s2[300];
		rdstr(t->tid, a[0], s, sizeof(s));
		rdstr(t->tid, a[1], s2, sizeof(s2));
		snprintf(t->args, sizeof(t->args), "\"%s\", \"%.250s\"", s, s2);
		break;
	}
	case SYS_renameat:
	case SYS_renameat2:
	case SYS_linkat: {
		char s2[300];
		rdstr(t->tid, a[1], s, sizeof(s));
		rdstr(t->tid, a[3], s2, sizeof(s2));
		snprintf(t->args, sizeof(t->args), "\"%s\", \"%.250s\"", s, s2);
		break;
	}
	case SYS_symlinkat: {
		char s2[300];
		rdstr(t->tid, a[0], s, sizeof(s));
		rdstr(t->tid, a[2], s2, sizeof(s2));
		snprintf(t->args, sizeof(t->args), "\"%s\", \"%.250s\"", s, s2);
		break;
	}
	case SYS_unlinkat:
	case SYS_mkdirat:
		rdstr(t->tid, a[1], s, sizeof(s));
		snprintf(t->args, sizeof(t->args), "\"%s\"", s);
		break;
	case SYS_open:
		rdstr(t->tid, a[0], s, sizeof(s));
		oflags(fl, sizeof(fl), a[1]);
		snprintf(t->args, sizeof(t->args), "AT_FDCWD, \"%s\", %s", s, fl);
		break;
	case SYS_creat:
		rdstr(t->tid, a[0], s, sizeof(s));
		snprintf(t->args, sizeof(t->args), "AT_FDCWD, \"%s\", O_WRONLY|O_CREAT|O_TRUNC", s);
		break;
	case SYS_chdir:
		rdstr(t->tid, a[0], s, sizeof(s));
		snprintf(t->args, sizeof(t->args), "\"%s\"", s);
		break;
	case SYS_getcwd:
		snprintf(t->args, sizeof(t->args), "0x%llx, %llu", (unsigned long long) a[0], (unsigned long long) a[1]);
		break;
	case SYS_truncate:
		rdstr(t->tid, a[0], s, sizeof(s));
		snprintf(t->args, sizeof(t->args), "\"%s\", %llu", s, (unsigned long long) a[1]);
		break;
	case SYS_ftruncate:
	case SYS_fsync:
	case SYS_fallocate:
	case SYS_sendfile:
	case SYS_copy_file_range:
		snprintf(t->args, sizeof(t->args), "%d, %llu, %llu", (int) a[0], (unsigned long long) a[1], (unsigned long long) a[2]);
		break;
	default:
		t->args[0] = 0;
	}
}

static void
log_ret(struct tstate *t, int64_t rv, int is_err, int injected)
{
	if (is_err || rv < 0) {
		int e = (int) -rv;
		const char *n = "E?", *d = "error";
		for (int i = 0; i < NERR; i++)
			if (ERR[i].e == e) {
				n = ERR[i].n;
				d = ERR[i].d;
			}
		fprintf(lg, "%d %s(%s) = -1 %s (%s)%s\n", t->tid, SC[t->sc].name, t->args, n, d, injected ? " (INJECTED)" : "");
	} else {
		fprintf(lg, "%d %s(%s) = %lld\n", t->tid, SC[t->sc].name, t->args, (long long) rv);
	}
	fflush(lg);
}

int
main(int argc, char *argv[])
{
	if (argc < 4) {
		fprintf(stderr, "usage: killat <log> <-|kill:N|err:N:ERRNO> prog args...\n");
		return 2;
	}
	lg = fopen(argv[1], "w");
	if (!lg)
		return 2;
	char spec[256];
	snprintf(spec, sizeof(spec), "%s", argv[2]);
	for (char *tok = strtok(spec, ","); tok && nact < MAXACT; tok = strtok(NULL, ",")) {
		if (strncmp(tok, "kill:", 5) == 0) {
			act[nact].mode = 1;
			act[nact].target = atoi(tok + 5);
			nact++;
		} else if (strncmp(tok, "short:", 6) == 0 || strncmp(tok, "full:", 5) == 0) {
			act[nact].mode = tok[0] == 's' ? 3 : 4;
			sscanf(strchr(tok, ':') + 1, "%d:%d", &act[nact].target, &act[nact].err);
			nact++;
		} else if (strncmp(tok, "err:", 4) == 0) {
			char name[32] = "";
			act[nact].mode = 2;
			sscanf(tok + 4, "%d:%31[A-Z0-9]", &act[nact].target, name);
			for (int i = 0; i < NERR; i++)
				if (strcmp(ERR[i].n, name) == 0)
					act[nact].err = ERR[i].e;
			if (!act[nact].err) {
				fprintf(stderr, "killat: unknown errno %s\n", name);
				return 2;
			}
			nact++;
		}
	}
	leader = fork();
	if (leader == 0) {
		ptrace(PTRACE_TRACEME, 0, 0, 0);
		raise(SIGSTOP);
		execv(argv[3], argv + 3);
		_exit(127);
	}
	int st;
	waitpid(leader, &st, 0);
	ptrace(PTRACE_SETOPTIONS, leader, 0, PTRACE_O_TRACESYSGOOD | PTRACE_O_TRACECLONE | PTRACE_O_EXITKILL | PTRACE_O_TRACEEXEC);
	ts(leader);
	ptrace(PTRACE_SYSCALL, leader, 0, 0);
	int exit_code = 0;
	int live = 1;
	while (live > 0) {
		pid_t tid = waitpid(-1, &st, __WALL);
		if (tid < 0) {
			if (errno == EINTR)
				continue;
			break;
		}
		if (WIFEXITED(st) || WIFSIGNALED(st)) {
			if (tid == leader) {
				if (WIFSIGNALED(st)) {
					fprintf(lg, "%d +++ killed by SIG%s +++\n", tid, WTERMSIG(st) == SIGKILL ? "KILL" : (WTERMSIG(st) == SIGABRT ? "ABRT" : "OTHER"));
					exit_code = 128 + WTERMSIG(st);
				} else {
					fprintf(lg, "%d +++ exited with %d +++\n", tid, WEXITSTATUS(st));
					exit_code = WEXITSTATUS(st);
				}
				fflush(lg);
			}
			live--;
			/* other threads report their own exit; count them as they were added */
			continue;
		}
		if (!WIFSTOPPED(st))
			continue;
		int sig = WSTOPSIG(st);
		struct tstate *t = ts(tid);
		if (sig == (SIGTRAP | 0x80)) {
			struct sc_info si;
			memset(&si, 0, sizeof(si));
			ptrace(PTRACE_GET_SYSCALL_INFO, tid, (void *) sizeof(si), &si);
			if (si.op == 1) {
				int k = -1;
				for (int i = 0; i < NSC; i++)
					if ((long) si.entry.nr == SC[i].nr)
						k = i;
				if (k >= 0) {
					t->in_sys = 1;
					t->sc = k;
					t->inject = 0;
					fmt_args(t, &si);
					if (runtime) {
						counter++;
						int mode = 0, inj_errno = 0;
						for (int a = 0; a < nact; a++)
							if (act[a].target == counter) {
								mode = act[a].mode;
								inj_errno = act[a].err;
							}
						if (mode == 1) {
							/* the call does not execute: the whole process dies here */
							fprintf(lg, "%d %s(%s) = ?\n", tid, SC[k].name, t->args);
							fflush(lg);
							kill(leader, SIGKILL);
							ptrace(PTRACE_CONT, tid, 0, 0);
							continue;
						}
						/* calls that move data into a file, and the register that holds how much (bytes; segments for writev) */
						int is_write = SC[k].nr == SYS_write || SC[k].nr == SYS_pwrite64 || SC[k].nr == SYS_writev
							|| SC[k].nr == SYS_sendfile || SC[k].nr == SYS_copy_file_range;
						if ((mode == 3 || mode == 4) && is_write) {
							struct user_regs_struct r;
							ptrace(PTRACE_GETREGS, tid, 0, &r);
							unsigned long long *cnt = SC[k].nr == SYS_sendfile ? &r.r10 : (SC[k].nr == SYS_copy_file_range ? &r.r8 : &r.rdx);
							unsigned long long n = *cnt;
							if (n > 1) {
								*cnt = inj_errno == 1 ? 1 : (inj_errno == 2 ? n / 2 : n - 1);
								ptrace(PTRACE_SETREGS, tid, 0, &r);
								fprintf(lg, "%d note(VERIF-SHORTENED %llu -> %llu) = 0\n", tid, n, *cnt);
							}
							if (mode == 4)
								disk_is_full = 1;
							mode = 0;
						} else if (disk_is_full && mode == 0 && is_write && (int) si.entry.args[SC[k].nr == SYS_copy_file_range ? 2 : 0] > 2) {
							mode = 2;
							inj_errno = ENOSPC;
						}
						if (mode == 2) {
							struct user_regs_struct r;
							ptrace(PTRACE_GETREGS, tid, 0, &r);
							r.orig_rax = (unsigned long long) -1;
							ptrace(PTRACE_SETREGS, tid, 0, &r);
							t->inject = inj_errno;
						}
					}
				} else {
					t->in_sys = 0;
				}
			} else if (si.op == 2 && t->in_sys) {
				t->in_sys = 0;
				int64_t rv = si.exit.rval;
				int is_err = si.exit.is_error;
				if (t->inject) {
					struct user_regs_struct r;
					ptrace(PTRACE_GETREGS, tid, 0, &r);
					r.rax = (unsigned long long) (-(long long) t->inject);
					ptrace(PTRACE_SETREGS, tid, 0, &r);
					rv = -t->inject;
					is_err = 1;
				}
				log_ret(t, rv, is_err, t->inject != 0);
				if (!runtime && SC[t->sc].nr == SYS_write && strstr(t->args, "VERIF-START"))
					runtime = 1;
			}
			ptrace(PTRACE_SYSCALL, tid, 0, 0);
			continue;
		}
		if (sig == SIGTRAP && (st >> 16) == PTRACE_EVENT_CLONE) {
			live++;
			ptrace(PTRACE_SYSCALL, tid, 0, 0);
			continue;
		}
		if (sig == SIGTRAP && (st >> 16) != 0) {
			ptrace(PTRACE_SYSCALL, tid, 0, 0);
			continue;
		}
		if (sig == SIGSTOP && t->in_sys == 0 && tid != leader) {
			/* initial stop of a new thread */
			static pid_t seen[MAXT];
			static int ns;
			int first = 1;
			for (int i = 0; i < ns; i++)
				if (seen[i] == tid)
					first = 0;
			if (first && ns < MAXT) {
				seen[ns++] = tid;
				ptrace(PTRACE_SYSCALL, tid, 0, 0);
				continue;
			}
		}
		/* a real signal (e.g. SIGABRT from abort()): deliver it */
		ptrace(PTRACE_SYSCALL, tid, 0, sig);
	}
	fclose(lg);
	return exit_code;
}
