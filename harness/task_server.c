/* E4 (C07): task.c / body.c driven directly, one history per line.
 *
 * The real body.c is included so that the private body structure can be dumped
 * completely after every operation (state of every body, every thread's stack
 * from top to bottom); task.c comes from the archive.
 *
 * input line:  <f1> <f2> <f3> | op op op ...
 *   f_i: flags of task i (decimal, bits: 1 parallel, 2 resurrect, 4 pause, 8 relax nesting)
 *   op:  <x|e|p|r><thread 0..1><task 1..3><body 1..2>
 * output line: per op  "<ok|fail>:<dump>"  separated by spaces; the dump is
 *   b<task><body>=<state><owner>,... ; s<thread>=<task><body><task><body>...
 */
#define _GNU_SOURCE
#include <stdio.h>
#include <stdlib.h>
#include <string.h>
#include <unistd.h>
#include <fcntl.h>

#include VERIF_BODY_C
#include "task.h"

#define NT 3
#define NB 2
#define NTH 2

static void
dump(struct task_info *info, struct task_stack *st, char *dst, size_t n)
{
	size_t o = 0;
	for (uint32_t t = 1; t <= NT; t++) {
		struct task *task = task_find(info->tasks, t);
		for (uint32_t b = 1; b <= NB; b++) {
			struct body *body = task ? body_find(&task->body_info, b) : NULL;
			char s = '-';
			char owner = '-';
			if (body) {
				s = "?CRPD"[body->state];
				/* the owning stack is only meaningful (and only observable through the
				 * accept/refuse behaviour) while the body is running or paused */
				if (body->state == BODY_ST_RUNNING || body->state == BODY_ST_PAUSED) {
					for (int k = 0; k < NTH; k++)
						if (body->stack == &st[k].body_stack)
							owner = (char) ('0' + k);
					if (owner == '-')
						owner = '!';
				}
			}
			o += (size_t) snprintf(dst + o, n - o, "b%u%u=%c%c,", t, b, s, owner);
		}
	}
	for (int k = 0; k < NTH; k++) {
		o += (size_t) snprintf(dst + o, n - o, "s%d=", k);
		int guard = 0;
		for (struct body *b = st[k].body_stack.top; b && guard < 16; b = b->next, guard++)
			o += (size_t) snprintf(dst + o, n - o, "%u%u", b->taskid, b->id);
		struct body *run = task_get_running(&st[k]);
		o += (size_t) snprintf(dst + o, n - o, "/%u%u,", run ? run->taskid : 0, run ? run->id : 0);
	}
}

int
main(void)
{
	char *line = NULL;
	size_t cap = 0;
	int devnull = open("/dev/null", O_WRONLY);
	dup2(devnull, 2);
	while (getline(&line, &cap, stdin) > 0) {
		struct task_info info;
		struct task_stack st[NTH];
		memset(&info, 0, sizeof(info));
		memset(st, 0, sizeof(st));
		unsigned f[NT];
		char *bar = strchr(line, '|');
		if (!bar || sscanf(line, "%u %u %u", &f[0], &f[1], &f[2]) != 3) {
			printf("ERR\n");
			fflush(stdout);
			continue;
		}
		if (task_type_create(&info, 7, "tt") != 0) {
			printf("ERR type\n");
			fflush(stdout);
			continue;
		}
		int bad = 0;
		for (uint32_t t = 1; t <= NT; t++)
			if (task_create(&info, 7, t, f[t - 1]) != 0)
				bad = 1;
		if (bad) {
			printf("ERR create\n");
			fflush(stdout);
			continue;
		}
		char *save = NULL;
		for (char *op = strtok_r(bar + 1, " \n", &save); op; op = strtok_r(NULL, " \n", &save)) {
			if (strlen(op) != 4)
				continue;
			int k = op[1] - '0';
			uint32_t t = (uint32_t) (op[2] - '0');
			uint32_t b = (uint32_t) (op[3] - '0');
			struct task *task = task_find(info.tasks, t);
			int r = -1;
			if (task && k >= 0 && k < NTH) {
				switch (op[0]) {
				case 'x': r = task_execute(&st[k], task, b); break;
				case 'e': r = task_end(&st[k], task, b); break;
				case 'p': r = task_pause(&st[k], task, b); break;
				case 'r': r = task_resume(&st[k], task, b); break;
				}
			}
			char d[1024];
			dump(&info, st, d, sizeof(d));
			printf("%s:%s ", r == 0 ? "ok" : "fail", d);
		}
		printf("\n");
		fflush(stdout);
	}
	return 0;
}
