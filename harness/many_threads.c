/* E1 (many streams): a protocol-conformant program with N real threads.
 *
 * The library source of the working tree is compiled into this translation
 * unit unmodified.  Every thread follows the documented protocol on its own
 * CPU: thread init, require, OHx, a few events (some with payload, one jumbo),
 * OHe, flush, free; the initial thread also declares the CPUs and ends the
 * process.  The threads run one after another (joined in turn), so the run is
 * deterministic: the only point of this driver is the number of streams.
 *
 * usage: many_threads <casedir> <nthreads>
 * Output: the trace in <casedir>/trace.
 */
#define _GNU_SOURCE
#include <pthread.h>
#include <stdio.h>
#include <stdlib.h>
#include <string.h>
#include <sys/stat.h>
#include <sys/syscall.h>
#include <time.h>
#include <unistd.h>

#include "ovni.h"
#include VERIF_OVNI_C

static uint64_t fake_ns = 1000000;

int
clock_gettime(clockid_t id, struct timespec *tp)
{
	(void) id;
	uint64_t now = __atomic_add_fetch(&fake_ns, 7, __ATOMIC_SEQ_CST);
	tp->tv_sec = (time_t) (now / 1000000000ULL);
	tp->tv_nsec = (long) (now % 1000000000ULL);
	return 0;
}

static void
emit(const char *mcv, const void *payload, int n)
{
	struct ovni_ev ev = {0};
	ovni_ev_set_clock(&ev, ovni_clock_now());
	ovni_ev_set_mcv(&ev, mcv);
	if (n > 0)
		ovni_payload_add(&ev, payload, n);
	ovni_ev_emit(&ev);
}

static void
body(int k, int tid)
{
	int32_t x[4] = { k, tid, 0, 0 };	/* OHx: cpu, creator tid, tag (u64) */
	emit("OHx", x, 16);
	emit("OB.", NULL, 0);
	emit("OB.", x, 8);
	if (k % 3 == 0) {
		static const char data[300] = "jumbo";
		struct ovni_ev ev = {0};
		ovni_ev_set_clock(&ev, ovni_clock_now());
		ovni_ev_set_mcv(&ev, "OB.");
		ovni_ev_jumbo_emit(&ev, (const uint8_t *) data, sizeof(data));
	}
	if (k % 2 == 0)
		ovni_flush();
	emit("OB.", x, 16);
	emit("OHe", NULL, 0);
	ovni_flush();
}

static void *
thread_main(void *arg)
{
	int k = (int) (long) arg;
	int tid = (int) syscall(SYS_gettid);
	ovni_thread_init(tid);
	ovni_thread_require("ovni", "1.1.0");
	body(k, tid);
	ovni_thread_free();
	return NULL;
}

int
main(int argc, char *argv[])
{
	if (argc < 3)
		return 2;
	char path[4096];
	mkdir(argv[1], 0755);
	snprintf(path, sizeof(path), "%s/trace", argv[1]);
	setenv("OVNI_TRACEDIR", path, 1);
	unsetenv("OVNI_TMPDIR");
	int n = atoi(argv[2]);
	int pid = (int) getpid();

	ovni_version_check();
	ovni_proc_init(1, "L", pid);
	ovni_thread_init(pid);
	ovni_thread_require("ovni", "1.1.0");
	for (int i = 0; i < n; i++)
		ovni_add_cpu(i, i);
	for (int k = 1; k < n; k++) {
		pthread_t th;
		if (pthread_create(&th, NULL, thread_main, (void *) (long) k) != 0)
			return 3;
		pthread_join(th, NULL);
	}
	body(0, pid);
	ovni_thread_free();
	ovni_proc_fini();
	return 0;
}
