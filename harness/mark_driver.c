/* E1 (C17): the mark API of libovni driven by a program given on the command line.
 * usage: mark_driver <tracedir> <pid> <tid> <cpu> op...
 *   T<type>,<stack 0|1>,<title>   ovni_mark_type
 *   L<type>,<value>,<label>       ovni_mark_label
 *   P<type>,<value> O<type>,<value> S<type>,<value>   push / pop / set
 *   p r c w                      OHp OHr OHc OHw
 * exit 0 = ran to completion, 42 = the runtime aborted (die) */
#define _GNU_SOURCE
#include <stdio.h>
#include <stdlib.h>
#include <string.h>
#include <time.h>
#include <unistd.h>
#include "ovni.h"

static unsigned long long fake_ns = 5000;

int
clock_gettime(clockid_t id, struct timespec *tp)
{
	(void) id;
	fake_ns += 10;
	tp->tv_sec = (time_t) (fake_ns / 1000000000ULL);
	tp->tv_nsec = (long) (fake_ns % 1000000000ULL);
	return 0;
}

void
abort(void)
{
	fflush(NULL);
	_exit(42);
}

static void
emit(const char *mcv, const void *pay, int n)
{
	struct ovni_ev ev = {0};
	ovni_ev_set_clock(&ev, ovni_clock_now());
	ovni_ev_set_mcv(&ev, mcv);
	if (n)
		ovni_payload_add(&ev, pay, n);
	ovni_ev_emit(&ev);
}

int
main(int argc, char *argv[])
{
	if (argc < 5)
		return 2;
	setenv("OVNI_TRACEDIR", argv[1], 1);
	int pid = atoi(argv[2]), tid = atoi(argv[3]), cpu = atoi(argv[4]);
	fake_ns += (unsigned long long) tid * 3;
	ovni_proc_init(1, "L", pid);
	ovni_thread_init(tid);
	ovni_add_cpu(0, 0);
	ovni_add_cpu(1, 1);
	struct { int32_t cpu, tid; uint64_t tag; } __attribute__((packed)) x = { cpu, tid, 0 };
	emit("OHx", &x, 16);
	for (int a = 5; a < argc; a++) {
		char *op = argv[a];
		int t = 0;
		long long v = 0;
		char str[256] = "";
		if (strchr("TL", op[0])) {
			sscanf(op + 1, "%d,%lld,%255[^\n]", &t, &v, str);
			if (op[0] == 'T')
				ovni_mark_type(t, v ? OVNI_MARK_STACK : 0, str);
			else
				ovni_mark_label(t, v, str);
		} else if (strchr("POS", op[0])) {
			sscanf(op + 1, "%d,%lld", &t, &v);
			if (op[0] == 'P') ovni_mark_push(t, v);
			else if (op[0] == 'O') ovni_mark_pop(t, v);
			else ovni_mark_set(t, v);
		} else if (op[0] == 'p') emit("OHp", NULL, 0);
		else if (op[0] == 'r') emit("OHr", NULL, 0);
		else if (op[0] == 'c') emit("OHc", NULL, 0);
		else if (op[0] == 'w') emit("OHw", NULL, 0);
	}
	emit("OHe", NULL, 0);
	ovni_flush();
	ovni_thread_free();
	ovni_proc_fini();
	return 0;
}
