/* E1: libovni driven in-process, one API call at a time.
 *
 * The library source of the working tree is compiled into this translation
 * unit unmodified; only OVNI_MAX_EV_BUF may be redefined (-DVERIF_BUFSZ=n) so
 * that the buffer-full boundary can be reached with tiny programs.  The
 * environment is owned through link-level interposition: clock_gettime (a
 * deterministic strictly increasing clock), write (scripted short writes) and
 * abort (reported, then _exit).
 *
 * usage: rt_driver <casedir> <short-script|-> <op> <op> ...
 *   ops:  e<k>[:a+b+c]   normal event, payload k bytes (0,2..16) added in the given split
 *         q<k>           the same, carrying the clock of the previous event
 *         j<n>           jumbo event with n bytes of data
 *         f              ovni_flush()
 *         mp<v> mo<v> ms<v>   mark push/pop (type 0, stack) / set (type 1, single)
 *         X              emit OHx (cpu 0)      E   emit OHe
 *         M<mcv>         change the MCV used by following e/j ops (default "OB.")
 *   short script: comma separated "<write-index>:<maxlen>" applied to successive
 *   write() calls on the stream fd (index counts all stream writes incl. retries).
 * Output: <casedir>/log.txt (what was handed to the API) and the trace in <casedir>/trace.
 */
#define _GNU_SOURCE
#include <dlfcn.h>
#include <errno.h>
#include <fcntl.h>
#include <inttypes.h>
#include <stdarg.h>
#include <stdio.h>
#include <stdlib.h>
#include <string.h>
#include <sys/stat.h>
#include <sys/syscall.h>
#include <time.h>
#include <unistd.h>

#include "ovni.h"
#ifdef VERIF_BUFSZ
#undef OVNI_MAX_EV_BUF
#define OVNI_MAX_EV_BUF (VERIF_BUFSZ)
#endif

#include VERIF_OVNI_C

/* ------------------------------------------------------------------ */
static FILE *logf;
static uint64_t fake_ns = 1000000;
static int nshort;
static long short_idx[64], short_len[64];
static long stream_writes;

int
clock_gettime(clockid_t id, struct timespec *tp)
{
	(void) id;
	fake_ns += 7;
	tp->tv_sec = (time_t) (fake_ns / 1000000000ULL);
	tp->tv_nsec = (long) (fake_ns % 1000000000ULL);
	return 0;
}

static size_t
maybe_short(int fd, size_t n)
{
	size_t len = n;
	if (rthread.ready || rthread.evbuf != NULL) {
		if (fd == rthread.streamfd) {
			for (int i = 0; i < nshort; i++) {
				if (short_idx[i] == stream_writes && (size_t) short_len[i] < len && short_len[i] > 0)
					len = (size_t) short_len[i];
			}
			if (logf)
				fprintf(logf, "W %ld %zu %zu\n", stream_writes, n, len);
			stream_writes++;
		}
	}
	return len;
}

ssize_t
write(int fd, const void *buf, size_t n)
{
	return syscall(SYS_write, fd, buf, maybe_short(fd, n));
}

/* the same for a vectored write, should the runtime ever use one */
#include <sys/uio.h>
ssize_t
writev(int fd, const struct iovec *iov, int cnt)
{
	size_t tot = 0;
	for (int i = 0; i < cnt; i++)
		tot += iov[i].iov_len;
	size_t left = maybe_short(fd, tot);
	struct iovec v[16];
	int m = 0;
	for (int i = 0; i < cnt && left > 0 && m < 16; i++) {
		v[m] = iov[i];
		if (v[m].iov_len > left)
			v[m].iov_len = left;
		left -= v[m].iov_len;
		m++;
	}
	return syscall(SYS_writev, fd, v, m);
}

void
abort(void)
{
	if (logf) {
		fprintf(logf, "ABORT\n");
		fflush(logf);
	}
	fflush(NULL);
	_exit(42);
}

static uint8_t
pat(unsigned seed, size_t i)
{
	return (uint8_t) ((seed * 131u + (unsigned) i * 7u + 3u) & 0xff);
}

int
main(int argc, char *argv[])
{
	if (argc < 3)
		return 2;
	char path[4096];
	const char *dir = argv[1];
	mkdir(dir, 0755);
	snprintf(path, sizeof(path), "%s/log.txt", dir);
	logf = fopen(path, "w");
	snprintf(path, sizeof(path), "%s/trace", dir);
	setenv("OVNI_TRACEDIR", path, 1);
	unsetenv("OVNI_TMPDIR");
	if (getenv("VERIF_TMPDIR")) {
		/* streams are written to a temporary directory and relocated at thread end */
		const char *how = getenv("VERIF_TMPDIR");
		if (strcmp(how, "same") == 0)		/* OVNI_TMPDIR names the trace directory itself */
			snprintf(path, sizeof(path), "%s/trace", dir);
		else if (strcmp(how, "alias") == 0)	/* ... under another spelling */
			snprintf(path, sizeof(path), "%s/./trace/", dir);
		else
			snprintf(path, sizeof(path), "%s/tmp", dir);
		setenv("OVNI_TMPDIR", path, 1);
	}

	if (getenv("VERIF_RELTRACE")) {
		/* the trace directories are given relative to the working directory; the op "cd" changes it later */
		if (chdir(dir) != 0)
			return 2;
		setenv("OVNI_TRACEDIR", "trace", 1);
		if (getenv("OVNI_TMPDIR"))
			setenv("OVNI_TMPDIR", "tmp", 1);
	}

	if (strcmp(argv[2], "-") != 0) {
		char *s = strdup(argv[2]);
		for (char *t = strtok(s, ","); t && nshort < 64; t = strtok(NULL, ",")) {
			if (sscanf(t, "%ld:%ld", &short_idx[nshort], &short_len[nshort]) == 2)
				nshort++;
		}
	}

	fprintf(logf, "B %lld\n", (long long) OVNI_MAX_EV_BUF);
	if (getenv("VERIF_CLOSE0")) {
		/* a program without standard input (a daemon): the stream gets descriptor 0 */
		close(0);
	}
	ovni_version_check();
	ovni_proc_init(1, "L", 777);
	ovni_thread_init(777);	/* the initial thread: its id is the process id */
	ovni_add_cpu(0, 0);
	ovni_mark_type(0, OVNI_MARK_STACK, "m0");
	ovni_mark_type(1, 0, "m1");

	char mcv[4] = "OB.";
	unsigned seq = 0;
	uint64_t last_clock = fake_ns;
	static uint8_t *jbuf;
	jbuf = malloc((size_t) OVNI_MAX_EV_BUF + 64);
	for (int a = 3; a < argc; a++) {
		const char *op = argv[a];
		seq++;
		fprintf(logf, "S %zu\n", rthread.evlen); /* fill level before the call: state key only */
		if (op[0] == 'M') {
			memcpy(mcv, op + 1, 3);
		} else if (op[0] == 'e' || op[0] == 'q') {
			/* q<k>: like e<k> but with the same clock as the previous event (equal clocks are legal) */
			int k = atoi(op + 1);
			struct ovni_ev ev = {0};
			uint8_t p[32];
			for (int i = 0; i < k; i++)
				p[i] = pat(seq, (size_t) i);
			/* the setters may be called in any order: with a trailing 'r' the payload goes in first, then the MCV, then
			 * the clock */
			int rev = op[strlen(op) - 1] == 'r';
			if (!rev) {
				ovni_ev_set_clock(&ev, op[0] == 'q' ? last_clock : ovni_clock_now());
				ovni_ev_set_mcv(&ev, mcv);
			}
			const char *split = strchr(op, ':');
			if (k > 0) {
				if (split) {
					int off = 0;
					char *s = strdup(split + 1);
					for (char *t = strtok(s, "+"); t; t = strtok(NULL, "+")) {
						int n = atoi(t);
						ovni_payload_add(&ev, p + off, n);
						off += n;
					}
				} else {
					ovni_payload_add(&ev, p, k);
				}
			}
			if (rev) {
				ovni_ev_set_mcv(&ev, mcv);
				ovni_ev_set_clock(&ev, op[0] == 'q' ? last_clock : ovni_clock_now());
			}
			last_clock = ovni_ev_get_clock(&ev);
			fprintf(logf, "E %s %" PRIu64 " %d %u\n", mcv, ovni_ev_get_clock(&ev), k, seq);
			fflush(logf);
			ovni_ev_emit(&ev);
		} else if (op[0] == 'j') {
			long n = atol(op + 1);
			struct ovni_ev ev = {0};
			for (long i = 0; i < n; i++)
				jbuf[i] = pat(seq, (size_t) i);
			ovni_ev_set_clock(&ev, ovni_clock_now());
			ovni_ev_set_mcv(&ev, mcv);
			fprintf(logf, "J %s %" PRIu64 " %ld %u\n", mcv, ovni_ev_get_clock(&ev), n, seq);
			fflush(logf);
			ovni_ev_jumbo_emit(&ev, jbuf, (uint32_t) n);
		} else if (op[0] == 'f') {
			fprintf(logf, "F\n");
			fflush(logf);
			ovni_flush();
		} else if (op[0] == 'm') {
			long v = atol(op + 2);
			/* the mark API reads the clock itself: next clock value is fake_ns + 7 */
			uint64_t c = fake_ns + 7;
			if (op[1] == 'p') {
				fprintf(logf, "K OM[ %" PRIu64 " %ld 0\n", c, v);
				fflush(logf);
				ovni_mark_push(0, v);
			} else if (op[1] == 'o') {
				fprintf(logf, "K OM] %" PRIu64 " %ld 0\n", c, v);
				fflush(logf);
				ovni_mark_pop(0, v);
			} else {
				fprintf(logf, "K OM= %" PRIu64 " %ld 1\n", c, v);
				fflush(logf);
				ovni_mark_set(1, v);
			}
		} else if (op[0] == 'X') {
			struct ovni_ev ev = {0};
			int32_t cpu = 0, tid = 777;
			uint64_t tag = 0;
			ovni_ev_set_clock(&ev, ovni_clock_now());
			ovni_ev_set_mcv(&ev, "OHx");
			ovni_payload_add(&ev, (uint8_t *) &cpu, 4);
			ovni_payload_add(&ev, (uint8_t *) &tid, 4);
			ovni_payload_add(&ev, (uint8_t *) &tag, 8);
			last_clock = ovni_ev_get_clock(&ev);
			fprintf(logf, "R OHx %" PRIu64 "\n", ovni_ev_get_clock(&ev));
			fflush(logf);
			ovni_ev_emit(&ev);
		} else if (op[0] == 'R' && op[1] == ':') {
			/* R:<model>:<version> -- the program states which model version it needs */
			char model[64], ver[64];
			if (sscanf(op + 2, "%63[^:]:%63s", model, ver) == 2)
				ovni_thread_require(model, ver);
		} else if (op[0] == 'a' && op[1] == 's') {
			/* metadata API: set an attribute (as), write the metadata out now (af) */
			ovni_attr_set_double("verif.a", (double) seq);
			fprintf(logf, "A %u\n", seq);
		} else if (op[0] == 'a' && op[1] == 't') {
			/* every kind of attribute; what is set can be read back at once (G lines, judged by the check) */
			char v[64];
			snprintf(v, sizeof(v), "text-%u", seq);
			ovni_attr_set_str("verif.s", v);
			ovni_attr_set_boolean("verif.b", (int) (seq & 1));
			snprintf(v, sizeof(v), "{\"k\": [%u, 2, {\"z\": null}]}", seq);
			ovni_attr_set_json("verif.j", v);
			char *j = ovni_attr_get_json("verif.j");
			fprintf(logf, "G %u has=%d%d s=%s b=%d d=%g j=", seq, ovni_attr_has("verif.s"), ovni_attr_has("verif.nothere"),
					ovni_attr_get_str("verif.s"), ovni_attr_get_boolean("verif.b"),
					ovni_attr_has("verif.a") ? ovni_attr_get_double("verif.a") : -1.0);
			for (char *q = j; *q; q++)
				if (*q != ' ' && *q != '\n')
					fputc(*q, logf);
			fputc('\n', logf);
			free(j);
		} else if (op[0] == 'a' && op[1] == 'f') {
			ovni_attr_flush();
		} else if (op[0] == 'a' && op[1] == 'b') {
			/* a value larger than a stdio buffer */
			static char big[6001];
			memset(big, 'm', sizeof(big) - 1);
			ovni_attr_set_str("verif.big", big);
		} else if (op[0] == 'a' && op[1] == 'c') {
			/* a machine with many CPUs, the process pinned to physical CPUs that do not start at its logical
			 * index (index i is physical CPU i + 2, so indices and physical ids overlap) */
			for (int i = 1; i <= 300; i++)
				ovni_add_cpu(i, i + 2);
		} else if (op[0] == 'Z') {
			/* the thread ends its tracing; later the same OS thread asks for tracing again under the same id (a worker
			 * that detaches and attaches again): whatever the library answers, what was flushed and freed stays */
			ovni_flush();
			ovni_thread_free();
			fprintf(logf, "FREED\n");
			fflush(logf);
			ovni_thread_init(777);
			fprintf(logf, "REINIT\n");
			fflush(logf);
		} else if (op[0] == 'c' && op[1] == 'd') {
			/* the program changes its working directory (nothing the tracing protocol forbids) */
			mkdir("elsewhere", 0755);
			if (chdir("elsewhere") != 0)
				return 2;
		} else if (op[0] == 'E') {
			struct ovni_ev ev = {0};
			ovni_ev_set_clock(&ev, ovni_clock_now());
			ovni_ev_set_mcv(&ev, "OHe");
			fprintf(logf, "R OHe %" PRIu64 "\n", ovni_ev_get_clock(&ev));
			fflush(logf);
			ovni_ev_emit(&ev);
		}
	}
	fprintf(logf, "S %zu\n", rthread.evlen);
	fprintf(logf, "FIN\n");
	fflush(logf);
	ovni_flush();
	ovni_thread_free();
	ovni_proc_fini();
	fprintf(logf, "DONE\n");
	fclose(logf);
	return 0;
}
