"""Run TLC, dump the complete labelled state graph and read it back."""
import os, re, subprocess, shutil
from .common import InfraError, VERIF, NCPU


def run_tlc(workdir, module, cfg_text, module_text, spec_files, workers=None, timeout=1200):
    os.makedirs(workdir, exist_ok=True)
    for f in spec_files:
        shutil.copy(os.path.join(VERIF, "tla", f), workdir)
    open(os.path.join(workdir, module + ".tla"), "w").write(module_text)
    open(os.path.join(workdir, module + ".cfg"), "w").write(cfg_text)
    dot = os.path.join(workdir, "graph.dot")
    cmd = ["tlc", "-workers", str(workers or min(8, NCPU)), "-metadir", os.path.join(workdir, "meta"),
           "-dump", "dot,actionlabels", dot, module + ".tla"]
    try:
        r = subprocess.run(cmd, cwd=workdir, stdout=subprocess.PIPE, stderr=subprocess.STDOUT, timeout=timeout)
    except FileNotFoundError:
        raise InfraError("tlc not found on PATH")
    out = r.stdout.decode("latin1")
    info = {"ok": "Model checking completed. No error has been found." in out, "output_tail": out[-1500:]}
    m = re.search(r"(\d+) states generated, (\d+) distinct states found", out)
    if m:
        info["generated"] = int(m.group(1))
        info["distinct"] = int(m.group(2))
    return info, dot


_NODE = re.compile(r'^(-?\d+) \[label="((?:[^"\\]|\\.)*)"[,\]]')
_EDGE = re.compile(r'^(-?\d+) -> (-?\d+) \[label="((?:[^"\\]|\\.)*)"')


def parse_dot(dot):
    """-> (nodes {id: label text}, edges [(src, dst, action label)], init ids)"""
    nodes, edges, init = {}, [], []
    with open(dot) as f:
        for l in f:
            m = _EDGE.match(l)
            if m:
                edges.append((m.group(1), m.group(2), m.group(3).replace('\\"', '"')))
                continue
            m = _NODE.match(l)
            if m:
                nodes[m.group(1)] = m.group(2).replace('\\"', '"').replace("\\\\", "\\").replace("\\n", "\n")
                if "style = filled" in l:
                    init.append(m.group(1))
    return nodes, edges, init


def parse_fn(text):
    """'[t0 |-> "running", t1 |-> "unknown"]' -> dict"""
    out = {}
    for m in re.finditer(r'(\w+) \|-> "([^"]*)"', text):
        out[m.group(1)] = m.group(2)
    return out


def parse_state(label):
    """'/\\ st = [...]\n/\\ cpu = [...]' -> {var: dict}"""
    out = {}
    for m in re.finditer(r'/\\ (\w+) = (\[.*?\])(?=\n|$)', label, re.S):
        out[m.group(1)] = parse_fn(m.group(2))
    return out


def parse_action(label):
    """'Execute("t0","A0")' -> ('Execute', ('t0','A0'))"""
    m = re.match(r'(\w+)\((.*)\)$', label)
    if not m:
        return (label, ())
    args = tuple(a.strip().strip('"') for a in m.group(2).split(",")) if m.group(2) else ()
    return (m.group(1), args)
