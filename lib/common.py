"""Shared plumbing: build from the working tree, evidence, replays, known findings.

Python 3 stdlib only.  Nothing here decides a property; it only makes sure
every check (a) builds its harnesses from $VERIF_REPO's *current* working
tree, (b) writes evidence from counters it measured, (c) reports violations in
the agreed format, and (d) stops at a global deadline with exhaustive:false.
"""
import hashlib, json, os, re, shutil, subprocess, sys, time, tempfile, glob
from concurrent.futures import ThreadPoolExecutor

VERIF = os.path.dirname(os.path.dirname(os.path.abspath(__file__)))
REPO = os.environ.get("VERIF_REPO", "/repo")
BUILD_ROOT = os.path.join(VERIF, "build")
NCPU = int(os.environ.get("VERIF_JOBS", str(os.cpu_count() or 4)))
SEED = int(os.environ.get("VERIF_SEED", "0") or 0)


class InfraError(Exception):
    """Build failure, nondeterministic replay, missing tool: exit 2, never a VIOLATION."""


class EmuRefused(InfraError):
    """The real emulator (inside the exploration server) refused to initialise on a trace the check built as valid
    (header-only streams with complete metadata).  That is the emulator's behaviour on a legal input: reported as a
    violation of the running property, with the system description as replay."""

    def __init__(self, msg, tracedir=None, flags=None):
        InfraError.__init__(self, "the emulator refuses the valid base trace: %s" % msg)
        self.emsg, self.tracedir, self.flags = msg, tracedir, list(flags or [])


# --------------------------------------------------------------------------
# build
# --------------------------------------------------------------------------
def _tree_hash():
    h = hashlib.sha1()
    roots = [os.path.join(REPO, d) for d in ("src", "include", "cfg")]
    files = [os.path.join(REPO, "CMakeLists.txt")]
    for r in roots:
        for dp, dn, fn in os.walk(r):
            dn.sort()
            for f in sorted(fn):
                files.append(os.path.join(dp, f))
    for f in files:
        try:
            with open(f, "rb") as fh:
                h.update(f.encode() + b"\0" + fh.read() + b"\0")
        except OSError:
            pass
    return h.hexdigest()[:16]


def _project_version():
    txt = open(os.path.join(REPO, "CMakeLists.txt")).read()
    m = re.search(r"project\(\s*OVNI[^)]*VERSION\s+([0-9.]+)", txt)
    if not m:
        raise InfraError("cannot parse project version from CMakeLists.txt")
    return m.group(1)


def _emu_sources():
    txt = open(os.path.join(REPO, "src/emu/CMakeLists.txt")).read()
    m = re.search(r"add_library\(emu STATIC(.*?)\)", txt, re.S)
    if not m:
        raise InfraError("cannot parse emu source list")
    out = []
    for tok in m.group(1).split():
        p = os.path.normpath(os.path.join(REPO, "src/emu", tok))
        out.append(p)
    return out


VARIANTS = {
    # fast fork()-friendly build used by the state-graph searches
    "plain": ["-O1", "-g", "-fno-omit-frame-pointer"],
    # memory-error / UB oracle
    "san": ["-O1", "-g", "-fno-omit-frame-pointer", "-fsanitize=address,undefined",
            "-fno-sanitize-recover=undefined"],
    # C19 oracle: memory errors and undefined behaviour that can fault; arithmetic overflow on
    # garbage clocks is not a crash, a hang or an out-of-bounds access (outside the property)
    "sanx": ["-O1", "-g", "-fno-omit-frame-pointer", "-fsanitize=address,undefined",
             "-fno-sanitize=signed-integer-overflow", "-fno-sanitize-recover=undefined"],
    "tsan": ["-O1", "-g", "-fno-omit-frame-pointer", "-fsanitize=thread"],
}
TOOLS = ["ovniemu", "ovnidump", "ovnisort", "ovnitop", "ovnievents"]


def run(cmd, **kw):
    return subprocess.run(cmd, stdout=subprocess.PIPE, stderr=subprocess.PIPE, **kw)


class Build:
    """Objects/libs/tools compiled from REPO's working tree, cached by content hash."""

    def __init__(self):
        self.hash = _tree_hash()
        self.dir = os.path.join(BUILD_ROOT, self.hash)
        self.inc = os.path.join(self.dir, "inc")
        os.makedirs(self.inc, exist_ok=True)
        self._gc()
        self._gen_headers()

    def _gc(self):
        # keep the two most recent tree builds
        ds = [d for d in glob.glob(os.path.join(BUILD_ROOT, "*")) if os.path.isdir(d)]
        ds.sort(key=lambda d: os.path.getmtime(d), reverse=True)
        for d in ds[3:]:
            # (builds used within the last half hour may belong to a check running beside this one)
            if os.path.basename(d) != self.hash and time.time() - os.path.getmtime(d) > 1800:
                shutil.rmtree(d, ignore_errors=True)
        os.utime(self.dir, None)

    def _gen_headers(self):
        dst = os.path.join(self.inc, "ovni.h")
        if not os.path.exists(dst):
            t = open(os.path.join(REPO, "include/ovni.h.in")).read()
            t = t.replace("@PROJECT_VERSION@", _project_version()).replace("@OVNI_GIT_COMMIT@", "verif")
            open(dst + ".tmp", "w").write(t)
            os.replace(dst + ".tmp", dst)
        cfg = os.path.join(self.inc, "config.h")
        if not os.path.exists(cfg):
            open(cfg, "w").write('#ifndef OVNI_CONFIG_H\n#define OVNI_CONFIG_H\n#define OVNI_CONFIG_DIR "%s/cfg"\n#endif\n' % REPO)

    def version(self):
        return _project_version()

    def cflags(self, variant):
        return ["-std=c11", "-D_POSIX_C_SOURCE=200809L", "-w"] + VARIANTS[variant] + [
            "-I", self.inc, "-I", os.path.join(REPO, "src"), "-I", os.path.join(REPO, "src/include"),
            "-I", os.path.join(REPO, "src/emu")]

    def _obj(self, variant, src, extra=(), tag=""):
        rel = os.path.relpath(src, REPO).replace("/", "_")
        o = os.path.join(self.dir, variant, rel + tag + ".o")
        return o

    def compile_many(self, variant, jobs, cc="gcc"):
        """jobs: list of (src, obj, extra_flags).  Compiles missing objects in parallel."""
        todo = [(s, o, e) for (s, o, e) in jobs if not os.path.exists(o)]
        if not todo:
            return
        os.makedirs(os.path.join(self.dir, variant), exist_ok=True)

        def one(j):
            s, o, e = j
            os.makedirs(os.path.dirname(o), exist_ok=True)
            tmp = o + ".%d.tmp" % os.getpid()
            r = run([cc] + self.cflags(variant) + list(e) + ["-c", s, "-o", tmp])
            if r.returncode != 0:
                raise InfraError("compile failed: %s\n%s" % (s, r.stderr.decode()[-2000:]))
            os.replace(tmp, o)
        with ThreadPoolExecutor(NCPU) as ex:
            list(ex.map(one, todo))

    def lib(self, variant, overrides=None, tag=""):
        """Static archive of emulator + runtime + common + parson objects.
        overrides: {relative source path: [extra flags]} compiled separately under `tag`."""
        overrides = overrides or {}
        a = os.path.join(self.dir, variant, "libemu%s.a" % tag)
        if os.path.exists(a):
            return a
        srcs = _emu_sources() + [os.path.join(REPO, p) for p in
                                  ("src/compat.c", "src/parson.c", "src/rt/ovni.c")]
        srcs = list(dict.fromkeys(srcs))
        jobs = []
        objs = []
        for s in srcs:
            rel = os.path.relpath(s, REPO)
            if rel in overrides:
                o = self._obj(variant, s, tag=tag)
                jobs.append((s, o, overrides[rel]))
            else:
                o = self._obj(variant, s)
                jobs.append((s, o, ()))
            objs.append(o)
        self.compile_many(variant, jobs)
        tmp = a + ".%d.tmp" % os.getpid()
        r = run(["ar", "rcs", tmp] + objs)
        if r.returncode != 0:
            raise InfraError("ar failed: " + r.stderr.decode())
        os.replace(tmp, a)
        return a

    def tool(self, variant, name):
        exe = os.path.join(self.dir, variant, name)
        if os.path.exists(exe):
            return exe
        a = self.lib(variant)
        src = os.path.join(REPO, "src/emu", name + ".c")
        tmp = exe + ".%d.tmp" % os.getpid()
        r = run(["gcc"] + self.cflags(variant) + [src, a, "-lm", "-o", tmp])
        if r.returncode != 0:
            raise InfraError("link failed for %s:\n%s" % (name, r.stderr.decode()[-2000:]))
        os.replace(tmp, exe)
        return exe

    def tool_heapbuf(self, variant, name):
        """Tool linked against an archive whose stream.c loads the stream into an exact-size heap
        buffer (wrapper -Dmmap=verif_mmap; no source change)."""
        exe = os.path.join(self.dir, variant, name + "-heapbuf")
        h = hashlib.sha1(open(os.path.join(VERIF, "harness", "mmap_heap.c"), "rb").read()).hexdigest()[:8]
        exe += "-" + h
        if os.path.exists(exe):
            return exe
        a = self.lib(variant, {"src/emu/stream.c": ["-Dmmap=verif_mmap"]}, tag="-heapbuf")
        src = os.path.join(REPO, "src/emu", name + ".c")
        tmp = exe + ".%d.tmp" % os.getpid()
        r = run(["gcc"] + self.cflags(variant) + [src, os.path.join(VERIF, "harness", "mmap_heap.c"), a, "-lm", "-o", tmp])
        if r.returncode != 0:
            raise InfraError("link failed for %s:\n%s" % (name, r.stderr.decode()[-2000:]))
        os.replace(tmp, exe)
        return exe

    def tools(self, variant, names=TOOLS):
        self.lib(variant)
        with ThreadPoolExecutor(len(names)) as ex:
            return dict(zip(names, ex.map(lambda n: self.tool(variant, n), names)))

    def harness(self, variant, name, sources, extra=(), libs=True, overrides=None, tag="", cc="gcc", link_extra=()):
        """Build /verif/harness/<sources> (+ the emulator archive) into an executable."""
        hs = hashlib.sha1()
        for s in sources:
            hs.update(open(os.path.join(VERIF, "harness", s), "rb").read())
        for h in glob.glob(os.path.join(VERIF, "harness", "*.h")):
            hs.update(open(h, "rb").read())
        hs.update(repr((extra, overrides, link_extra, cc)).encode())
        exe = os.path.join(self.dir, variant, "%s-%s" % (name, hs.hexdigest()[:10]))
        if os.path.exists(exe):
            return exe
        os.makedirs(os.path.dirname(exe), exist_ok=True)
        args = [cc] + self.cflags(variant) + ["-I", os.path.join(VERIF, "harness"),
                                              "-DVERIF_REPO=\"%s\"" % REPO] + list(extra)
        args += [os.path.join(VERIF, "harness", s) for s in sources]
        if libs:
            args.append(self.lib(variant, overrides, tag))
        args += ["-lm", "-lpthread"] + list(link_extra)
        tmp = exe + ".%d.tmp" % os.getpid()
        r = run(args + ["-o", tmp])
        if r.returncode != 0:
            raise InfraError("harness build failed (%s):\n%s" % (name, r.stderr.decode()[-3000:]))
        os.replace(tmp, exe)
        return exe


# --------------------------------------------------------------------------
# scratch
# --------------------------------------------------------------------------
class Scratch:
    def __init__(self, tag):
        base = "/dev/shm" if os.path.isdir("/dev/shm") and os.access("/dev/shm", os.W_OK) else tempfile.gettempdir()
        self.dir = tempfile.mkdtemp(prefix="verif-%s-" % tag, dir=base)

    def sub(self, name):
        p = os.path.join(self.dir, name)
        os.makedirs(p, exist_ok=True)
        return p

    def cleanup(self):
        shutil.rmtree(self.dir, ignore_errors=True)


# --------------------------------------------------------------------------
# known findings
# --------------------------------------------------------------------------
def load_known():
    p = os.path.join(VERIF, "known_findings.json")
    if not os.path.exists(p):
        return []
    return json.load(open(p)).get("findings", [])


# --------------------------------------------------------------------------
# check context
# --------------------------------------------------------------------------
# Which enumeration plan a tier runs.  The tier names the registered command (and the deadline); the plan names the bounds.
# Checks whose former thorough plan completes in well under a minute run it on every change, and their thorough tier
# runs the "deep" plan (the thorough plan plus the extensions marked `plan == "deep"` in the check).
FAST = ("C08", "C09", "C10", "C12", "C13", "C14", "C17", "C18", "C20")


def plan_of(prop, tier):
    if os.environ.get("VERIF_PLAN"):
        return os.environ["VERIF_PLAN"]
    if prop in FAST:
        return "thorough" if tier == "quick" else "deep"
    return tier


class Ctx:
    def __init__(self, prop, tier, level):
        self.prop = prop
        self.tier = tier
        self.level = level
        self.t0 = time.time()
        dflt = 150 if tier == "quick" else 1500
        self.deadline_s = float(os.environ.get("VERIF_DEADLINE_S", dflt))
        self.cov = {"evaluations": 0, "distinct_nontrivial": 0, "rule": "", "samples": [],
                    "states": 0, "transitions": 0, "traces_validated_against_impl": 0,
                    "exhaustive": True, "caps_hit": [], "parts": {}}
        self.assumptions = []
        self.nviol = 0
        self.known_hits = {}
        self.known = [k for k in load_known() if k.get("property") == prop and k.get("status") == "known"]
        self.max_report = 5
        self._viol_keys = set()

    # ---- time
    def elapsed(self):
        return time.time() - self.t0

    def out_of_time(self, frac=1.0):
        return self.elapsed() > self.deadline_s * frac

    def cap(self, what):
        self.cov["exhaustive"] = False
        if what not in self.cov["caps_hit"]:
            self.cov["caps_hit"].append(what)

    # ---- counters
    def add(self, **kw):
        for k, v in kw.items():
            self.cov[k] = self.cov.get(k, 0) + v

    def part(self, name, **kw):
        d = self.cov["parts"].setdefault(name, {})
        for k, v in kw.items():
            if isinstance(v, (int, float)) and not isinstance(v, bool) and isinstance(d.get(k, 0), (int, float)):
                d[k] = d.get(k, 0) + v
            else:
                d[k] = v

    def sample(self, s, limit=6):
        if len(self.cov["samples"]) < limit:
            self.cov["samples"].append(s)

    # ---- violations
    def violation(self, summary, replay, match=None):
        """replay: JSON-able dict describing the failing case.  match: dict of
        attributes compared with known-finding matchers."""
        match = match or {}
        summary = "".join(c if 32 <= ord(c) < 127 else "?" for c in summary)
        for k in self.known:
            m = k.get("matcher", {})
            if all(match.get(a) == b for a, b in m.items()):
                kid = k.get("id", json.dumps(m, sort_keys=True))
                if kid not in self.known_hits:
                    self.known_hits[kid] = 0
                    print("KNOWN-FINDING: property=%s %s" % (self.prop, k.get("summary", kid)))
                self.known_hits[kid] += 1
                return False
        key = hashlib.sha1(json.dumps(replay, sort_keys=True, default=str).encode()).hexdigest()[:16]
        if key in self._viol_keys:
            return True
        self._viol_keys.add(key)
        self.nviol += 1
        if self.nviol <= self.max_report:
            d = os.path.join(VERIF, "replays", self.prop)
            os.makedirs(d, exist_ok=True)
            path = os.path.join(d, key + ".json")
            body = {"property": self.prop, "tier": self.tier, "summary": summary,
                    "repo_hash": _tree_hash(), "replay": replay, "match": match}
            json.dump(body, open(path, "w"), indent=1, default=str)
            print("VIOLATION property=%s replay=%s" % (self.prop, path))
            print("  " + summary[:600])
            sys.stdout.flush()
        return True

    def too_many(self):
        return self.nviol >= 25

    # ---- evidence
    def finish(self):
        cov = self.cov
        if not cov["samples"]:
            cov["samples"] = ["(no case was executed)"]
        ev = {"property_id": self.prop, "tier": self.tier, "seed": SEED, "level": self.level,
              "coverage": cov, "assumptions": self.assumptions, "wall_s": round(self.elapsed(), 2),
              "violations": self.nviol, "known_finding_hits": self.known_hits,
              "repo_tree_hash": _tree_hash()}
        os.makedirs(os.path.join(VERIF, "evidence"), exist_ok=True)
        p = os.path.join(VERIF, "evidence", self.prop + ".json")
        json.dump(ev, open(p + ".tmp", "w"), indent=1, default=str)
        os.replace(p + ".tmp", p)
        print("%s tier=%s evaluations=%d states=%d transitions=%d validated=%d exhaustive=%s violations=%d wall=%.1fs" % (
            self.prop, self.tier, cov["evaluations"], cov["states"], cov["transitions"],
            cov["traces_validated_against_impl"], cov["exhaustive"], self.nviol, self.elapsed()))
        return 1 if self.nviol else 0


_PM = {}


def _pm_call(i):
    return _PM["fn"](_PM["items"][i])


def pmap(fn, items, workers=None):
    """Parallel map over forked processes; fn may be a closure (it is inherited
    through fork, only indices and results cross the pipe)."""
    from multiprocessing import get_context
    workers = workers or NCPU
    items = list(items)
    if workers <= 1 or len(items) <= 1:
        return [fn(x) for x in items]
    _PM["fn"], _PM["items"] = fn, items
    ctx = get_context("fork")
    with ctx.Pool(min(workers, len(items))) as pool:
        return pool.map_async(_pm_call, range(len(items)), chunksize=max(1, len(items) // (workers * 8))).get(timeout=7200)
