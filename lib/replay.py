"""`bin/verif replay <file>`: re-executes one recorded violation on the current tree
without the explorer and prints what is observed."""
import json, os, sys, subprocess, shutil
from .common import Build, Scratch, REPO, VERIF


def _ev_from_line(l):
    from .emusrv import Ev, Fin
    k = l.split()
    if k[0] == "F":
        return Fin(int(k[1]))
    pay = b"" if k[4] == "-" else bytes.fromhex(k[4])
    j = None
    if len(k) > 5:
        j = b"" if k[5] == "-" else bytes.fromhex(k[5])
    return Ev(int(k[1]), k[3], pay, int(k[2]), j)


def main(path):
    d = json.load(open(path))
    r = d.get("replay", {})
    eng = r.get("engine", "")
    print("property:", d.get("property"), "| recorded on tree", d.get("repo_hash"))
    print("summary :", d.get("summary"))
    build = Build()
    sc = Scratch("replay")
    try:
        if eng.startswith("E3"):
            from . import emusrv
            meta = r.get("system") or {"spec": r.get("tracedir_spec") or r.get("spec"), "require": None, "extra_meta": None}
            if not meta.get("spec"):
                print("replay file carries no system description")
                return 2
            exe = build.harness("plain", "emu_server", ["emu_server.c"])
            td = emusrv.System(meta["spec"], require=meta.get("require"), extra_meta=meta.get("extra_meta")).write(sc.sub("t"))
            srv = emusrv.EmuServer(exe, td, r.get("flags") or ["-l"])
            hist = [_ev_from_line(l) for l in (r.get("prefix") or []) + (r.get("history") or [])]
            probes = [_ev_from_line(r["probe"])] if r.get("probe") else []
            for run in (1, 2):
                h, res = srv.expand(hist, probes, echo=True)
                print("run %d: history %s" % (run, "accepted" if h.get("ok") else "REFUSED at %s: %s" % (h.get("fail_index"), h.get("msg"))))
                for p in res:
                    print("   probe ->", p.status, p.msg, [l for l in p.lines][:12])
            srv.close()
            return 0
        if eng.startswith("E1 rt_driver"):
            from checks import rt
            exe = rt.build_driver(build, r.get("bufsz"))
            cd = sc.sub("case")
            rc, err, log = rt.run_case(exe, cd, r["program"], r.get("short", "-"), tmpdir=bool(r.get("tmpdir")), close0=bool(r.get("close0")))
            print("driver exit:", rc, err[-200:])
            print("C01 oracle:", rt.check_fidelity(cd, log))
            print("C02 oracle:", rt.check_valid(cd) if "DONE" in log else "n/a")
            print("ovniemu   :", rt.emu_accepts(build)(cd) if "DONE" in log else "n/a")
            return 0
        if eng.startswith("E1 many_threads"):
            from checks import rt
            from . import emusrv
            exe = build.harness("san", "many_threads", ["many_threads.c"], extra=['-DVERIF_OVNI_C="%s"' % os.path.join(REPO, "src/rt/ovni.c")])
            cd = sc.sub("case")
            x = subprocess.run([exe, cd, str(r["threads"])], stdout=subprocess.PIPE, stderr=subprocess.PIPE)
            print("program exit:", x.returncode, x.stderr.decode("latin1")[-200:])
            for nofile in (None, 40):
                rc, out, err = emusrv.run_tool(build.tool("plain", "ovniemu"), ["-l", os.path.join(cd, "trace")], nofile=nofile)
                print("ovniemu -l (descriptors allowed: %s): exit %r | %s" % (nofile or "default", rc, " / ".join(err.strip().split("\n")[-2:])[:300]))
            return 0
        if eng.startswith("E2"):
            from checks import c11
            small = bool(r.get("small_buffer"))
            exe = build.harness("plain", "sched_driver_b97" if small else "sched_driver", ["sched_driver.c"],
                                extra=['-DVERIF_OVNI_C="%s"' % os.path.join(REPO, "src/rt/ovni.c")] + (["-DVERIF_BUFSZ=97"] if small else []),
                                link_extra=["-ldl"])
            srv = c11.Server(exe, sc.sub("srv"))
            for run in (1, 2):
                pts, verdict, outcome = srv.run(r["scenario"], r["mode"], r["schedule"])
                print("run %d: %d scheduling points, verdict: %s, outcome: %s" % (run, len(pts), verdict, outcome))
            srv.close()
            return 0
        if eng.startswith("E5"):
            from checks import crash
            runner = crash.Runner(build, sc)
            s = r.get("kill_before") or r.get("syscall")
            inj = ((r.get("after_fault") + ",") if r.get("after_fault") else "") + (("kill:%d" % s["n"]) if "kill_before" in r else ("err:%d:%s" % (s["n"], r["fault"])))
            x = runner.run("replay", r["scenario"], tuple(r["mode"]), inject=inj)
            print("exit:", x["rc"], "| stderr:", x["stderr"][-300:])
            for tid, dp in crash.thread_dirs(x["final"]).items():
                print("final thread.%d:" % tid, {f: len(crash.read(os.path.join(dp, f)) or b"") for f in ("stream.obs", "stream.json")})
            print("ovniemu on the final directory:", runner.emulate(x["final"]))
            return 0
        if eng.startswith("E6") and "corruption" in r:
            from checks import corrupt
            from . import catalog, mutate, emusrv
            cat = catalog.load_events()
            tr = mutate.base_traces({m: v["version"] for m, v in cat.items()}, for_c19=True)[r["base"]]
            for (label, files, verdict) in mutate.operators(tr, "thorough", for_c19=True):
                if label == r["corruption"]:
                    td = sc.sub("t")
                    corrupt.write_files(td, files)
                    for t in ([r["tool"].split()[0]] if r.get("tool") else ["ovniemu", "ovnidump", "ovnitop", "ovnisort"]):
                        exe = build.tool_heapbuf("sanx", t)
                        args = r["args"] if r.get("args") is not None and r.get("tool") else (["-l"] if t == "ovniemu" else [])
                        corrupt.write_files(td, files)
                        envx = {"ASAN_OPTIONS": "detect_leaks=0:abort_on_error=1:allocator_may_return_null=1"}
                        envx.update(a[4:].split("=", 1) for a in args if a.startswith("ENV:"))
                        rc, out, err = emusrv.run_tool(exe, [a for a in args if not a.startswith("ENV:")] + [td], timeout=10, env_extra=envx)
                        print(t, "exit", rc, "|", err[-400:].replace("\n", " / "))
                    return 0
            print("corruption label not found (grammar cases are not replayable by label)")
            return 2
        print("no dedicated replayer for engine %r; the recorded case is:" % eng)
        print(json.dumps(r, indent=1)[:4000])
        return 0
    finally:
        sc.cleanup()
