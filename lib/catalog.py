"""Event catalogue read from the *documentation* of the working tree
(doc/user/emulation/events.md), never from the handlers' tables."""
import html, os, re, json
from .common import REPO, VERIF

MODEL_CHAR = {"nanos6": "6", "nodes": "D", "kernel": "K", "mpi": "M", "ovni": "O", "openmp": "P",
              "tampi": "T", "nosv": "V"}

PAIR_VERBS = (("enters", "leaves"), ("begins", "ceases"), ("starts", "stops"))
# documented as a pair with free wording ("enters the hungry state" / "is no longer hungry"; "out of CPU" / "back to CPU")
EXTRA_PAIRS = (("VSh", "VSf"), ("KCO", "KCI"))
TYPE_SIZE = {"u8": 1, "i8": 1, "u16": 2, "i16": 2, "u32": 4, "i32": 4, "u64": 8, "i64": 8}


class EvDecl:
    def __init__(self, model, sig, desc):
        self.model = model
        self.sig = sig
        self.desc = desc
        m = re.match(r"^(...)(\+?)(?:\((.*)\))?$", sig)
        self.mcv = m.group(1)
        self.jumbo = m.group(2) == "+"
        self.args = []
        if m.group(3):
            for a in m.group(3).split(","):
                ty, name = a.strip().split(" ")
                self.args.append((ty, name))

    @property
    def payload_size(self):
        if self.jumbo:
            return None
        return sum(TYPE_SIZE.get(t, 0) for t, _ in self.args)

    def __repr__(self):
        return "<%s %s>" % (self.sig, self.desc)


def load_events(path=None):
    """-> {model name: {"version": v, "events": [EvDecl]}}"""
    path = path or os.path.join(REPO, "doc/user/emulation/events.md")
    t = open(path).read()
    out = {}
    model = None
    for m in re.finditer(r"## Model (\w+)|with identifier \*\*`(.)`\*\* at version `([0-9.]+)`|<pre>(.*?)</pre></a></dt>\s*<dd>(.*?)</dd>", t, re.S):
        if m.group(1):
            model = m.group(1)
            out[model] = {"version": None, "char": None, "events": []}
        elif m.group(2):
            out[model]["char"] = m.group(2)
            out[model]["version"] = m.group(3)
        else:
            out[model]["events"].append(EvDecl(model, html.unescape(m.group(4)), html.unescape(m.group(5))))
    if path.endswith("doc/user/emulation/events.md") and (len(out) < 8 or sum(len(d["events"]) for d in out.values()) < 100):
        from .common import InfraError
        raise InfraError("cannot parse %s (format changed?)" % path)
    return out


def pairs(events):
    """[(enter EvDecl, leave EvDecl)] derived from the documented descriptions."""
    out = []
    by_desc = {}
    norm = lambda d: re.sub(r"\s+", " ", d.strip())
    for e in events:
        by_desc.setdefault(norm(e.desc), []).append(e)
    for e in events:
        for (a, b) in PAIR_VERBS:
            if norm(e.desc).startswith(a + " "):
                other = b + norm(e.desc)[len(a):]
                for o in by_desc.get(other, []):
                    out.append((e, o))
    by_mcv = {e.mcv: e for e in events}
    for (a, b) in EXTRA_PAIRS:
        if a in by_mcv and b in by_mcv:
            out.append((by_mcv[a], by_mcv[b]))
    return out


def golden(name):
    p = os.path.join(VERIF, "golden", name)
    return json.load(open(p))
