"""Base traces (written by lib/obs.py, independent of libovni) and deterministic
corruption operators for C12 (invalid traces are rejected) and C19 (tools are total).

A trace is {relpath: {"meta": dict, "events": [(mcv, clock, payload, jumbo)]}}.
Operators yield (label, files, verdict) where files = {path relative to the trace
dir: bytes} and verdict says what the specification demands:
   "invalid"  structurally invalid / inconsistent with metadata  -> must be rejected
   "unknown"  no demand (may be valid or semantically wrong)
"""
import json, struct, copy
from . import obs
from .emusrv import i32, i64, u32


def _x(cpu, tid):
    return ("OHx", i32(cpu, tid) + i64(0))


def base_traces(versions, for_c19=False):
    """versions: {model: version}.  Returns {name: trace}"""
    V = versions
    out = {}

    def meta(tid, pid, loom, cpus=None, req=(), app=1, rank=None, nranks=None, extra=None):
        r = {"ovni": V["ovni"]}
        for m in req:
            r[m] = V[m]
        return obs.stream_meta(tid, pid, loom, app_id=app, cpus=cpus, require=r, rank=rank, nranks=nranks, extra=extra)

    def evs(lst, t0=100):
        o = []
        c = t0
        for it in lst:
            mcv, pay = it[0], it[1]
            jumbo = it[2] if len(it) > 2 else None
            o.append((mcv, c, pay, jumbo))
            c += 3
        return o
    # T1: ovni + nOS-V, two threads, two jumbo task-type events, a task life-cycle, flush, affinity
    out["nosv"] = {
        "loom.n0/proc.100/thread.101": {"meta": meta(101, 100, "n0", cpus=[(0, 0), (1, 1)], req=("nosv",)),
                                        "events": evs([_x(0, 101), ("VYc", b"", u32(1) + b"fa\0"), ("VYc", b"", u32(2) + b"fb\0"),
                                                       ("VTc", u32(1, 1)), ("VTx", u32(1, 0)), ("VAr", b""), ("VAR", b""),
                                                       ("VTp", u32(1, 0)), ("VTr", u32(1, 0)), ("VTe", u32(1, 0)),
                                                       ("OF[", b""), ("OF]", b""), ("OHe", b""), ("OF[", b""), ("OF]", b"")])},
        # only the second thread defines user mark types (and uses one)
        "loom.n0/proc.100/thread.102": {"meta": meta(102, 100, "n0", req=("nosv",),
                                                     extra={"ovni": {"mark": {"3": {"title": "m3", "chan_type": "single"},
                                                                              "4": {"title": "m4", "chan_type": "stack", "labels": {"1": "one"}}}}}),
                                        "events": evs([_x(1, 102), ("OHC", i32(1) + i64(7)), ("OM=", i64(5) + i32(3)), ("OAs", i32(1)), ("OHp", b""), ("OHr", b""),
                                                       ("VSh", b""), ("VSf", b""), ("OHe", b""), ("OF[", b""), ("OF]", b"")], 101)},
    }
    # T2: Nanos6
    out["nanos6"] = {
        "loom.n0/proc.100/thread.101": {"meta": meta(101, 100, "n0", cpus=[(0, 0)], req=("nanos6",)),
                                        "events": evs([_x(0, 101), ("6Yc", b"", u32(1) + b"ta\0"), ("6Tc", u32(1, 1)), ("6W[", b""), ("6Wt", b""),
                                                       ("6Tx", u32(1)), ("6Tp", u32(1)), ("6Tr", u32(1)), ("6Te", u32(1)), ("6WT", b""),
                                                       ("6W]", b""), ("OHe", b""), ("OF[", b""), ("OF]", b"")])},
    }
    # T3: MPI + TAMPI + user marks
    mk = {"ovni": {"mark": {"0": {"title": "m0", "chan_type": "stack", "labels": {"1": "one"}},
                            "1": {"title": "m1", "chan_type": "single"}}}}
    out["mpi"] = {
        "loom.n0/proc.100/thread.101": {"meta": meta(101, 100, "n0", cpus=[(0, 0)], req=("mpi", "tampi"), extra=mk),
                                        "events": evs([_x(0, 101), ("MUi", b""), ("MUI", b""), ("TLi", b""), ("MS[", b""), ("MS]", b""),
                                                       ("TLI", b""), ("OM[", i64(1) + i32(0)), ("OM]", i64(1) + i32(0)),
                                                       ("OM=", i64(5) + i32(1)), ("OHe", b""), ("OF[", b""), ("OF]", b"")])},
    }
    # T4: two looms with ranks, OpenMP / NODES / kernel
    out["looms"] = {
        "loom.a.1/proc.10/thread.11": {"meta": meta(11, 10, "a.1", cpus=[(0, 4)], req=("openmp", "kernel"), rank=1, nranks=2),
                                       "events": evs([_x(0, 11), ("PA[", b""), ("KCO", b""), ("KCI", b""), ("PA]", b""), ("OHe", b""), ("OF[", b""), ("OF]", b"")])},
        "loom.b.1/proc.20/thread.21": {"meta": meta(21, 20, "b.1", cpus=[(0, 2)], req=("nodes",), rank=0, nranks=2, app=2),
                                       "events": evs([_x(0, 21), ("DR[", b""), ("DR]", b""), ("OHe", b""), ("OF[", b""), ("OF]", b"")], 102)},
    }
    # T7: the Nanos6 trace again on a machine whose clock has a large origin (2^60 ns) and events 3 ns apart: every swap of two
    # adjacent events is still a clock going backwards
    big = []
    for k, ev in enumerate(out["nanos6"]["loom.n0/proc.100/thread.101"]["events"]):
        big.append((ev[0], 2 ** 60 + 3 * k, ev[2], ev[3]))
    out["hugeclock"] = {"loom.n0/proc.100/thread.101": {"meta": out["nanos6"]["loom.n0/proc.100/thread.101"]["meta"], "events": big}}
    if for_c19:
        # T6 (C19 only): two looms with nOS-V tasks and the breakdown view enabled (emulated with -b)
        bd = {"nosv": {"can_breakdown": True}}
        out["bd2"] = {
            "loom.n0/proc.100/thread.101": {"meta": meta(101, 100, "n0", cpus=[(0, 0), (1, 1)], req=("nosv",), extra=bd),
                                            "events": evs([_x(0, 101), ("VYc", b"", u32(1) + b"fa\0"), ("VTc", u32(1, 1)), ("VTx", u32(1, 0)),
                                                           ("VAr", b""), ("VAR", b""), ("VTe", u32(1, 0)), ("VPr", b""), ("VPp", b""),
                                                           ("OHe", b""), ("OF[", b""), ("OF]", b"")])},
            "loom.n1/proc.200/thread.201": {"meta": meta(201, 200, "n1", cpus=[(0, 0)], req=("nosv",), extra=bd, app=2),
                                            "events": evs([_x(0, 201), ("VYc", b"", u32(1) + b"fb\0"), ("VTc", u32(1, 1)), ("VTx", u32(1, 0)),
                                                           ("VTe", u32(1, 0)),
                                                           # a task type with a long label (below the 512 characters the emulator allows)
                                                           ("VYc", b"", u32(2) + b"L" * 480 + b"\0"), ("VTc", u32(2, 2)), ("VTx", u32(2, 0)), ("VTe", u32(2, 0)),
                                                           # ... and one whose label would mean something to printf
                                                           ("VYc", b"", u32(3) + b"100%s done %n%5$s\0"),
                                                           ("OHe", b""), ("OF[", b""), ("OF]", b"")], 101)},
        }
        # T5 (C19 only, the emulator refuses it until it is sorted): an unordered region whose events, one of them a jumbo event,
        # belong before the region; the jumbo data is all 0xff so that any mis-sized walk over it decodes absurd sizes
        out["sortregion"] = {
            "loom.n0/proc.100/thread.101": {"meta": meta(101, 100, "n0", cpus=[(0, 0)], req=("nosv",)),
                                            "events": [("OHx", 100, i32(0, 101) + i64(0), None), ("VAr", 103, b"", None), ("VAR", 110, b"", None),
                                                       ("OU[", 120, b"", None), ("VYc", 104, b"", u32(2) + b"\xff" * 24 + b"\0"),
                                                       ("VTc", 105, u32(5, 2), None), ("VSh", 106, b"", None), ("OU]", 130, b"", None),
                                                       ("OHe", 140, b"", None), ("OF[", 143, b"", None), ("OF]", 146, b"", None)]},
            # second stream: its region holds the oldest events of the stream (it sorts to the very beginning)
            "loom.n0/proc.100/thread.102": {"meta": meta(102, 100, "n0", req=("nosv",)),
                                            "events": [("OU[", 100, b"", None), ("OHx", 50, i32(-1, 102) + i64(0), None), ("VSh", 60, b"", None),
                                                       ("VSf", 70, b"", None),
                                                       # a task type whose label is far longer than anything a tool's line buffer holds
                                                       ("VYc", 72, b"", u32(9) + b"Z" * 3000 + b"\0"),
                                                       # ... and labels that end just around the 1024 bytes such a buffer usually has
                                                       ("VYc", 73, b"", u32(10) + b"Y" * 985 + b"\0"), ("VYc", 74, b"", u32(11) + b"X" * 1000 + b"\0"),
                                                       ("VYc", 75, b"", u32(12) + b"W" * 1023 + b"\0"), ("VYc", 76, b"", u32(13) + b"V" * 1040 + b"\0"),
                                                       ("OU]", 110, b"", None), ("OHe", 141, b"", None),
                                                       ("OF[", 144, b"", None), ("OF]", 147, b"", None)]},
        }
    return out


def encode_stream(events):
    return obs.HDR + b"".join(obs.enc(m, c, p, j) for (m, c, p, j) in events)


def files_of(trace):
    f = {}
    for rel, s in trace.items():
        f[rel + "/stream.json"] = json.dumps(s["meta"], indent=1).encode()
        f[rel + "/stream.obs"] = encode_stream(s["events"])
    return f


def boundaries(events):
    offs = [8]
    o = 8
    for (m, c, p, j) in events:
        o += len(obs.enc(m, c, p, j))
        offs.append(o)
    return offs


# events whose payload size the model checks: mcv -> ("min", n) or ("eq", n)   (golden, from the model sources)
SIZE_CHECKED = {"OHx": ("min", 4), "OAs": ("eq", 4), "OAr": ("eq", 8), "VTc": ("min", 8), "VTC": ("min", 8), "VTx": ("min", 8),
                "VTe": ("min", 8), "VTp": ("min", 8), "VTr": ("min", 8), "6Tc": ("eq", 8), "6Tx": ("min", 4), "6Te": ("min", 4),
                "6Tp": ("min", 4), "6Tr": ("min", 4), "OM[": ("eq", 12), "OM]": ("eq", 12), "OM=": ("eq", 12)}


def _set(meta, dotted, value, remove=False):
    m = copy.deepcopy(meta)
    cur = m
    parts = dotted.split(".")
    for p in parts[:-1]:
        cur = cur[p]
    if remove:
        del cur[parts[-1]]
    else:
        cur[parts[-1]] = value
    return m


def _leaves(meta, prefix=""):
    for k, v in meta.items():
        p = prefix + k
        yield p, v
        if isinstance(v, dict):
            yield from _leaves(v, p + ".")


MANDATORY = ("version", "ovni.part", "ovni.tid", "ovni.pid", "ovni.loom", "ovni.finished", "ovni.require")


def meta_verdict(key, value, removed, meta, others=()):
    """What the specification demands for a single metadata alteration.
    others: metadata of the other streams of the trace (per-process / per-loom / per-trace
    attributes may be carried by any of them)."""
    same_proc = [o for o in others if o["ovni"].get("pid") == meta["ovni"].get("pid") and o["ovni"].get("loom") == meta["ovni"].get("loom")]
    same_loom = [o for o in others if o["ovni"].get("loom") == meta["ovni"].get("loom")]
    if key == "version":
        return "invalid" if (removed or value != 3) else "unknown"
    if key == "ovni.finished":
        return "invalid" if (removed or value != 1) else "unknown"
    if key in ("ovni.tid", "ovni.pid"):
        if removed or not isinstance(value, (int, float)) or isinstance(value, bool) or value == 0:
            return "invalid"
        return "unknown"
    if key == "ovni.loom":
        return "invalid" if (removed or not isinstance(value, str)) else "unknown"
    if key == "ovni.part":
        return "invalid" if (removed or not isinstance(value, str)) else "unknown"
    if key == "ovni.require":
        return "invalid" if (removed or not isinstance(value, dict)) else "unknown"
    if key == "ovni.loom_cpus":
        if any("loom_cpus" in o["ovni"] for o in same_loom):
            return "unknown"
        return "invalid" if (removed or not isinstance(value, list) or value == []) else "unknown"
    if key == "ovni.app_id":
        if any("app_id" in o["ovni"] for o in same_proc):
            return "unknown"
        return "invalid" if removed else "unknown"
    if key == "nosv.can_breakdown":
        # only the base trace that is emulated with -b carries it: the breakdown view needs it from every thread
        return "invalid" if (removed or value is False) else "unknown"
    if key.startswith("ovni.require.") and removed and key != "ovni.require.ovni":
        model = key.split(".")[2]
        if any(model in o["ovni"].get("require", {}) for o in others):
            return "unknown"
        return "invalid"      # events of that model are in the stream and nothing enables it
    return "unknown"


REPL = [None, 0, -1, "x", {}, []]


def operators(trace, tier, for_c19=False):
    """Yields (label, files, verdict)."""
    base = files_of(trace)
    for rel, s in trace.items():
        evs = s["events"]
        data = encode_stream(evs)
        b = boundaries(evs)
        op = rel + "/stream.obs"
        jp = rel + "/stream.json"
        # --- truncation at every byte offset
        for k in range(0, len(data)):
            f = dict(base)
            f[op] = data[:k]
            yield ("trunc:%s:%d" % (rel, k), f, "invalid" if k not in b else "unknown")
        # --- swap adjacent events with different clocks
        for i in range(len(evs) - 1):
            if evs[i][1] != evs[i + 1][1]:
                e2 = list(evs)
                # keep the clocks attached to the events: the stream now goes back in time
                e2[i], e2[i + 1] = e2[i + 1], e2[i]
                f = dict(base)
                f[op] = encode_stream(e2)
                yield ("swap:%s:%d" % (rel, i), f, "invalid")
        # --- header bytes
        for k in range(8):
            for how in ("00", "ff", "+1"):
                nb = {"00": 0, "ff": 255, "+1": (data[k] + 1) & 255}[how]
                if nb == data[k]:
                    continue
                f = dict(base)
                f[op] = data[:k] + bytes([nb]) + data[k + 1:]
                yield ("hdr:%s:%d:%s" % (rel, k, how), f, "invalid")
        # --- model byte of every event
        req = s["meta"]["ovni"]["require"]
        for i in range(len(evs)):
            for newm in ("M" if "mpi" not in req else "D", "Z", "\x01"):
                m, c, p, j = evs[i]
                e2 = list(evs)
                e2[i] = (newm + m[1:], c, p, j)
                f = dict(base)
                f[op] = encode_stream(e2)
                yield ("model:%s:%d:%r" % (rel, i, newm), f, "invalid")
        # --- unknown category / value
        for i in range(len(evs)):
            m, c, p, j = evs[i]
            if m[:2] in ("OB", "OU"):
                continue
            e2 = list(evs)
            e2[i] = (m[:2] + "~", c, p, j)
            f = dict(base)
            f[op] = encode_stream(e2)
            yield ("value:%s:%d" % (rel, i), f, "invalid")
        # --- payload sizes of size-checked events
        for i in range(len(evs)):
            m, c, p, j = evs[i]
            if m in SIZE_CHECKED and j is None:
                how, n = SIZE_CHECKED[m]
                for sz in [0] + list(range(2, 17)):
                    if sz == len(p):
                        continue
                    bad = (sz < n) if how == "min" else (sz != n)
                    e2 = list(evs)
                    e2[i] = (m, c, (p + bytes(16))[:sz], None)
                    f = dict(base)
                    f[op] = encode_stream(e2)
                    yield ("size:%s:%d:%d" % (rel, i, sz), f, "invalid" if bad else "unknown")
        # --- jumbo event replaced by a non-jumbo one with the same clock
        for i in range(len(evs)):
            m, c, p, j = evs[i]
            if j is not None:
                for sz in (0, 4, 8, 16):
                    e2 = list(evs)
                    e2[i] = (m, c, (j + bytes(16))[:sz], None)
                    f = dict(base)
                    f[op] = encode_stream(e2)
                    yield ("nojumbo:%s:%d:%d" % (rel, i, sz), f, "invalid")
                # a normal payload crafted to look like well-formed jumbo data if read as such
                e2 = list(evs)
                e2[i] = (m, c, u32(8) + j[:4] + b"ab\0\0" + bytes(4), None)
                f = dict(base)
                f[op] = encode_stream(e2)
                yield ("nojumbo:%s:%d:crafted" % (rel, i), f, "invalid")
        # --- metadata
        meta = s["meta"]
        others = [t["meta"] for r2, t in trace.items() if r2 != rel]
        for key, val in _leaves(meta):
            f = dict(base)
            f[jp] = json.dumps(_set(meta, key, None, remove=True)).encode()
            yield ("meta-rm:%s:%s" % (rel, key), f, meta_verdict(key, None, True, meta, others))
            for r in REPL + ([val + 1, val - 1] if isinstance(val, int) and not isinstance(val, bool) else []) + \
                    ([val + 0.9, val + 0.5] if key == "version" else []):      # "must have the value 3": 3.9 is not 3
                if r == val:
                    continue
                f = dict(base)
                f[jp] = json.dumps(_set(meta, key, r)).encode()
                yield ("meta-set:%s:%s=%s" % (rel, key, json.dumps(r)), f, meta_verdict(key, r, False, meta, others))
            if key.startswith("ovni.require.") and isinstance(val, str) and val.count(".") == 2:
                # another major / a larger minor that is the required one modulo 2^32 or 2^64: incompatible however it is read
                a, b_, c_ = val.split(".")
                for r in ("%d.%s.%s" % (int(a) + 2 ** 32, b_, c_), "%s.%d.%s" % (a, int(b_) + 2 ** 32, c_), "%d.%s.%s" % (int(a) + 2 ** 64, b_, c_)):
                    f = dict(base)
                    f[jp] = json.dumps(_set(meta, key, r)).encode()
                    yield ("meta-set:%s:%s=%s" % (rel, key, json.dumps(r)), f, "invalid")
        # --- unparsable metadata
        js = base[jp]
        for k in (0, 1, len(js) // 2, len(js) - 2):
            f = dict(base)
            f[jp] = js[:k]
            yield ("meta-trunc:%s:%d" % (rel, k), f, "invalid")
        if for_c19:
            # flags byte: all 256 values ; size-field abuse on jumbo events ; clock bytes
            for i in range(len(evs)):
                off = b[i]
                for fl in range(256):
                    if fl == data[off]:
                        continue
                    if tier == "quick" and fl not in (0x00, 0x01, 0x03, 0x0f, 0x10, 0x13, 0x1f, 0x20, 0x80, 0xff, 0x11, 0x12):
                        continue
                    f = dict(base)
                    f[op] = data[:off] + bytes([fl]) + data[off + 1:]
                    yield ("flags:%s:%d:%#x" % (rel, i, fl), f, "unknown")
                for cb in (4, 11):
                    for nb in (0x00, 0x7f, 0xff):
                        f = dict(base)
                        f[op] = data[:off + cb] + bytes([nb]) + data[off + cb + 1:]
                        yield ("clock:%s:%d:%d:%#x" % (rel, i, cb, nb), f, "unknown")
                m, c, p, j = evs[i]
                if j is not None:
                    n = len(j)
                    for js_ in (0, 1, 3, 4, max(n - 1, 0), n + 1, 2**31 - 1, 2**31, 2**32 - 17, 2**32 - 16, 2**32 - 13, 2**32 - 12, 2**32 - 1):
                        f = dict(base)
                        f[op] = data[:off + 12] + struct.pack("<I", js_) + data[off + 16:]
                        yield ("jsize:%s:%d:%d" % (rel, i, js_), f, "unknown")
                    # jumbo data without terminator / too short for the type id
                    for cut in (0, 1, 3, 4, 5):
                        e2 = list(evs)
                        e2[i] = (m, c, p, j[:cut])
                        f = dict(base)
                        f[op] = encode_stream(e2)
                        yield ("jdata:%s:%d:%d" % (rel, i, cut), f, "unknown")
                    e2 = list(evs)
                    e2[i] = (m, c, p, j.replace(b"\0", b"A"))
                    f = dict(base)
                    f[op] = encode_stream(e2)
                    yield ("jnoterm:%s:%d" % (rel, i), f, "unknown")
                else:
                    # a normal event turned jumbo with a size field taken from its payload / absent
                    f = dict(base)
                    f[op] = data[:off] + bytes([data[off] | 0x10]) + data[off + 1:]
                    yield ("tojumbo:%s:%d" % (rel, i), f, "unknown")
                    # last event of the stream with a declared payload that is not there
                    if i == len(evs) - 1:
                        f = dict(base)
                        f[op] = data[:off] + bytes([0x0f]) + data[off + 1:]
                        yield ("phantom-payload:%s:%d" % (rel, i), f, "unknown")
                # every listed event without payload (printers dereference declared arguments)
                if p:
                    e2 = list(evs)
                    e2[i] = (m, c, b"", None)
                    f = dict(base)
                    f[op] = encode_stream(e2)
                    yield ("nopayload:%s:%d" % (rel, i), f, "unknown")
    if for_c19:
        # metadata shapes that reach loaders directly
        for rel, s in trace.items():
            meta = s["meta"]
            jp = rel + "/stream.json"
            shapes = {
                "cpus-desc": [{"index": 1, "phyid": 1}, {"index": 0, "phyid": 0}],
                "cpus-dup-index": [{"index": 0, "phyid": 0}, {"index": 0, "phyid": 1}],
                "cpus-dup-phy": [{"index": 0, "phyid": 0}, {"index": 1, "phyid": 0}],
                "cpus-huge-index": [{"index": 1000000, "phyid": 0}],
                "cpus-neg": [{"index": -1, "phyid": -5}],
                "cpus-noobj": [1, 2, 3],
                "cpus-empty-obj": [{}],
                "cpus-strings": [{"index": "a", "phyid": "b"}],
            }
            for name, v in shapes.items():
                f = dict(base)
                f[jp] = json.dumps(_set(meta, "ovni.loom_cpus", v)).encode()
                yield ("meta-shape:%s:%s" % (rel, name), f, "unknown")
            for key, v in (("ovni.tid", 2**40), ("ovni.pid", -2**31), ("ovni.rank", -5), ("ovni.nranks", 0), ("ovni.app_id", 2**33),
                           ("ovni.loom", "x" * 600), ("ovni.loom", ""), ("ovni.loom", "a/b"), ("ovni.mark", {"0": 1}),
                           ("ovni.mark", {"-1": {"title": "t", "chan_type": "stack"}}), ("ovni.mark", {"x": {"title": "t"}}),
                           ("ovni.mark", {"1000": {"title": "t", "chan_type": "single", "labels": {"a": 1}}}),
                           ("ovni.require", {"ovni": 1}), ("ovni.require", {"nosv": "9999999999999.1.1"}), ("ovni.lib", 3)):
                try:
                    f = dict(base)
                    f[jp] = json.dumps(_set(meta, key, v)).encode()
                    yield ("meta-val:%s:%s" % (rel, key), f, "unknown")
                except KeyError:
                    pass
            f = dict(base)
            f[jp] = b"[1,2,3]"
            yield ("meta-array:%s" % rel, f, "unknown")
            f = dict(base)
            f[jp] = b"{" * 3000
            yield ("meta-deep:%s" % rel, f, "unknown")
            f = dict(base)
            del f[rel + "/stream.obs"]
            yield ("no-obs:%s" % rel, f, "unknown")
            f = dict(base)
            f[rel + "/stream.obs"] = b""
            yield ("empty-obs:%s" % rel, f, "unknown")
