"""Client of harness/emu_server.c plus helpers to lay out synthetic systems."""
import os, struct, subprocess, json, shutil
from . import obs
from .common import InfraError


def i32(*vals):
    return b"".join(struct.pack("<i", v) for v in vals)


def u32(*vals):
    return b"".join(struct.pack("<I", v & 0xffffffff) for v in vals)


def i64(*vals):
    return b"".join(struct.pack("<q", v) for v in vals)


class Ev(tuple):
    """(stream_index, dt, mcv, payload bytes, jumbo bytes or None)"""
    def __new__(cls, s, mcv, payload=b"", dt=1, jumbo=None):
        return tuple.__new__(cls, (s, dt, mcv, bytes(payload), jumbo))

    def __reduce__(self):
        s, dt, mcv, p, j = self
        return (Ev, (s, mcv, p, dt, j))

    def line(self):
        s, dt, mcv, p, j = self
        l = "E %d %d %s %s" % (s, dt, mcv, p.hex() if p else "-")
        if j is not None:
            l += " %s" % (j.hex() if j else "-")
        return l

    def short(self):
        s, dt, mcv, p, j = self
        r = "%d:%s" % (s, mcv)
        if p:
            r += "(" + p.hex() + ")"
        if j is not None:
            r += "J%d" % len(j)
        if dt != 1:
            r += "+%d" % dt
        return r


class Fin(tuple):
    def __new__(cls, lint=1):
        return tuple.__new__(cls, ("F", lint))

    def __reduce__(self):
        return (Fin, (self[1],))

    def line(self):
        return "F %d" % self[1]

    def short(self):
        return "finish(lint=%d)" % self[1]


class PRes:
    __slots__ = ("status", "hash", "lines", "msg", "files", "code")

    def __init__(self):
        self.status = None
        self.hash = None
        self.lines = []
        self.msg = ""
        self.files = None
        self.code = None

    @property
    def ok(self):
        return self.status == "ok"

    @property
    def crashed(self):
        return self.status == "crash"


def _parse_lines(s):
    out = []
    if not s:
        return out
    for it in s.split(";"):
        if not it:
            continue
        name, row, tm, ty, val = it.split(":")
        out.append((name, int(row), int(tm), int(ty), int(val)))
    return out


class EmuServer:
    def __init__(self, exe, tracedir, flags=()):
        self.exe = exe
        self.tracedir = tracedir
        env = dict(os.environ)
        env["ASAN_OPTIONS"] = "detect_leaks=0:abort_on_error=1"
        env["UBSAN_OPTIONS"] = "halt_on_error=1:abort_on_error=1"
        self.p = subprocess.Popen([exe] + list(flags) + [tracedir], stdin=subprocess.PIPE,
                                  stdout=subprocess.PIPE, stderr=subprocess.DEVNULL, env=env)
        self.streams = {}
        self.pvts = {}
        self.threads = []
        self.cpus = []
        self.init_lines = []
        l = self._rl()
        if not l.startswith("READY"):
            self.initfail = l.strip()
            self.p.wait()
            if l.startswith("INITFAIL ERROR"):
                from .common import EmuRefused
                raise EmuRefused(l.strip()[9:], tracedir, flags)
            raise InfraError("emu_server did not start: %s" % l)
        while True:
            l = self._rl().rstrip("\n")
            if l == "ENDREADY":
                break
            k = l.split(" ")
            if k[0] == "S":
                self.streams[k[2]] = int(k[1])
            elif k[0] == "V":
                self.pvts[k[2]] = (int(k[1]), int(k[3]))
            elif k[0] == "T":
                self.threads.append({"gindex": int(k[1]), "tid": int(k[2]), "pid": int(k[3])})
            elif k[0] == "C":
                self.cpus.append({"gindex": int(k[1]), "index": int(k[2]), "phyid": int(k[3]),
                                  "virtual": int(k[4]), "loom": k[5]})
            elif k[0] == "I":
                self.init_lines = _parse_lines(l.split("|", 1)[1])

    def _rl(self):
        l = self.p.stdout.readline()
        if not l:
            raise InfraError("emu_server died (exit %s)" % self.p.poll())
        return l.decode("latin1")

    def expand(self, history, probes, echo=False):
        """Replays `history` from the initial state, then tries every probe from there.
        Returns (hres, [PRes]) ; hres = dict(ok, hash, lines, fail_index, msg)."""
        buf = ["X %d %d %d" % (len(history), len(probes), 1 if echo else 0)]
        buf += [e.line() for e in history]
        buf += [e.line() for e in probes]
        self.p.stdin.write(("\n".join(buf) + "\n").encode("latin1"))
        self.p.stdin.flush()
        h = None
        res = [None] * len(probes)
        while True:
            l = self._rl().rstrip("\n")
            if l == "END":
                break
            if l.startswith("H "):
                k = l.split(" ", 3)
                if k[1] == "ok":
                    rest = l.split("|", 1)[1]
                    h = {"ok": True, "hash": k[2], "lines": _parse_lines(rest) if echo else []}
                elif k[1] == "fail":
                    kk = l.split(" ")
                    h = {"ok": False, "fail_index": int(kk[2]), "msg": l.split("|", 1)[1], "crash": False}
                else:
                    h = {"ok": False, "fail_index": -1, "msg": l, "crash": k[1] == "crash"}
            elif l.startswith("P "):
                k = l.split(" ", 3)
                i = int(k[1])
                r = PRes()
                r.status = k[2]
                parts = l.split("|")
                if k[2] == "ok" and len(parts) >= 3:
                    r.hash = k[3].split(" ")[0]
                    r.lines = _parse_lines(parts[1])
                elif k[2] == "fail" and len(parts) >= 3:
                    r.lines = _parse_lines(parts[1])
                    r.msg = parts[2]
                elif k[2] == "crash":
                    r.code = k[3].split(" ")[0]
                    r.msg = parts[1] if len(parts) > 1 else ""
                elif k[2] in ("ok", "fail"):  # finish probe
                    r.msg = parts[1] if len(parts) > 1 else ""
                if isinstance(probes[i], Fin) and k[2] in ("ok", "fail"):
                    r.files = {}
                    while True:
                        fl = self._rl().rstrip("\n")
                        if fl == "ENDFILES":
                            break
                        if fl.startswith("FILE "):
                            _, name, n = fl.split(" ")
                            data = self.p.stdout.read(int(n) + 1)[:-1]
                            r.files[name] = data.decode("latin1")
                if res[i] is None or r.status == "crash":
                    # a crash line arrives after a partial/absent normal line
                    res[i] = r
        return h, res

    def close(self):
        try:
            self.p.stdin.write(b"Q\n")
            self.p.stdin.flush()
        except Exception:
            pass
        try:
            self.p.wait(timeout=5)
        except Exception:
            self.p.kill()


# ---------------------------------------------------------------------------
class System:
    """A synthetic trace layout: looms -> processes -> threads, CPUs per loom.
    spec: list of looms: {"name":..., "cpus":[(index,phyid)...], "procs":[{"pid":..,"app":..,"rank":..,"threads":[tid...]}]}"""

    def __init__(self, spec, require=None, extra_meta=None):
        self.spec = spec
        self.require = require or {"ovni": "1.1.0"}
        self.extra_meta = extra_meta or {}
        self.meta = {"spec": spec, "require": self.require, "extra_meta": self.extra_meta}
        self.threads = []  # (loom, pid, tid)
        for l in spec:
            for p in l["procs"]:
                for t in p["threads"]:
                    self.threads.append((l["name"], p["pid"], t))

    def write(self, tracedir, events=None, libver="1.11.0", keep_outputs=False):
        """events: {relpath: bytes of events} ; default header only.  keep_outputs: only the stream directories are replaced,
        whatever an earlier emulation wrote next to them stays (re-emulation in the same directory)."""
        if os.path.exists(tracedir) and keep_outputs:
            for n in os.listdir(tracedir):
                if n.startswith("loom."):
                    shutil.rmtree(os.path.join(tracedir, n))
        else:
            if os.path.exists(tracedir):
                shutil.rmtree(tracedir)
            os.makedirs(tracedir)
        for l in self.spec:
            first = True
            for p in l["procs"]:
                for t in p["threads"]:
                    rel = obs.relpath(l["name"], p["pid"], t)
                    m = obs.stream_meta(t, p["pid"], l["name"], app_id=p.get("app", 1),
                                        cpus=l["cpus"] if first else None,
                                        require=self.require, rank=p.get("rank"), nranks=p.get("nranks"),
                                        libver=libver, extra=self.extra_meta.get(rel) or self.extra_meta.get("*"))
                    first = False
                    body = (events or {}).get(rel, b"")
                    obs.write_stream(tracedir, rel, m, obs.HDR + body)
        return tracedir

    def rel(self, i):
        l, p, t = self.threads[i]
        return obs.relpath(l, p, t)


def materialise(system, tracedir, history, stream_of, base_clock=1000, keep_outputs=False):
    """Write `history` (list of Ev) as real stream.obs files; stream_of maps the
    server stream index to a relpath.  Clocks are the ones the server uses."""
    parts = {}
    clock = base_clock
    for e in history:
        s, dt, mcv, p, j = e
        clock += dt
        parts.setdefault(stream_of[s], []).append(obs.enc(mcv, clock, p, j))
    bodies = {rel: b"".join(v) for rel, v in parts.items()}
    system.write(tracedir, bodies, keep_outputs=keep_outputs)
    return tracedir


def run_tool(exe, args, timeout=20, env_extra=None, nofile=None, cwd=None):
    """nofile: soft limit on open descriptors for the tool (RLIMIT_NOFILE)"""
    env = dict(os.environ)
    env["ASAN_OPTIONS"] = "detect_leaks=0:abort_on_error=1"
    env["UBSAN_OPTIONS"] = "halt_on_error=1:abort_on_error=1:print_stacktrace=1"
    if env_extra:
        env.update(env_extra)
    try:
        pre = None
        if nofile is not None:
            import resource

            def pre():
                hard = resource.getrlimit(resource.RLIMIT_NOFILE)[1]
                resource.setrlimit(resource.RLIMIT_NOFILE, (nofile, hard))
        r = subprocess.run([exe] + list(args), stdout=subprocess.PIPE, stderr=subprocess.PIPE,
                           timeout=timeout, env=env, preexec_fn=pre, cwd=cwd)
        return r.returncode, r.stdout.decode("latin1"), r.stderr.decode("latin1")
    except subprocess.TimeoutExpired as e:
        return "timeout", (e.stdout or b"").decode("latin1"), (e.stderr or b"").decode("latin1")
