"""Independent parser/validator of Paraver .prv/.pcf/.row files."""
import re


class PvError(Exception):
    pass


HDR_RE = re.compile(r"^#Paraver \([^)]*\):(\d+)_ns:0:1:1\((\d+):1\)$")


def parse_prv(text):
    """Returns (duration, nrows, [(time,row,type,value)...]) ; raises PvError on a malformed file."""
    lines = text.split("\n")
    if not lines or not lines[0].startswith("#Paraver"):
        raise PvError("missing header")
    m = HDR_RE.match(lines[0])
    if not m:
        raise PvError("malformed header: %r" % lines[0])
    dur, nrows = int(m.group(1)), int(m.group(2))
    out = []
    if lines and lines[-1] == "":
        lines = lines[:-1]
    else:
        raise PvError("file does not end with newline")
    for i, l in enumerate(lines[1:], 2):
        p = l.split(":")
        if len(p) != 8 or p[0] != "2" or p[1] != "0" or p[2] != "1" or p[3] != "1":
            raise PvError("line %d malformed: %r" % (i, l))
        try:
            row, t, ty, val = int(p[4]), int(p[5]), int(p[6]), int(p[7])
        except ValueError:
            raise PvError("line %d malformed: %r" % (i, l))
        out.append((t, row, ty, val))
    return dur, nrows, out


def parse_prv_lines(text):
    """Parse bare event lines (no header) as produced incrementally."""
    out = []
    for l in text.split("\n"):
        if not l or l.startswith("#"):
            continue
        p = l.split(":")
        if len(p) != 8:
            raise PvError("malformed line %r" % l)
        out.append((int(p[5]), int(p[4]), int(p[6]), int(p[7])))
    return out


def parse_pcf(text):
    """Returns {type_id: (label, {value: label})}."""
    types = {}
    lines = text.split("\n")
    i = 0
    while i < len(lines):
        if lines[i].strip() == "EVENT_TYPE":
            i += 1
            m = re.match(r"^(\d+)\s+(\d+)\s+(.*)$", lines[i])
            if not m:
                raise PvError("bad EVENT_TYPE line %r" % lines[i])
            tid = int(m.group(2))
            label = m.group(3)
            if tid in types:
                raise PvError("type %d declared twice" % tid)
            vals = {}
            i += 1
            if i < len(lines) and lines[i].strip() == "VALUES":
                i += 1
                while i < len(lines) and lines[i].strip() != "":
                    m = re.match(r"^(-?\d+)\s+(.*)$", lines[i])
                    if not m:
                        raise PvError("bad value line %r" % lines[i])
                    v = int(m.group(1))
                    if v in vals:
                        raise PvError("value %d twice in type %d" % (v, tid))
                    vals[v] = m.group(2)
                    i += 1
            types[tid] = (label, vals)
        else:
            i += 1
    return types


def parse_row(text):
    """Returns the list of THREAD-level row names."""
    lines = text.split("\n")
    for i, l in enumerate(lines):
        m = re.match(r"^LEVEL THREAD SIZE (\d+)$", l)
        if m:
            n = int(m.group(1))
            names = lines[i + 1:i + 1 + n]
            rest = [x for x in lines[i + 1 + n:] if x != ""]
            if len(names) != n or rest:
                raise PvError("row file: declared %d rows, found %d (+%d trailing)" % (n, len(names), len(rest)))
            return names
    raise PvError("row file without LEVEL THREAD")


class Display:
    """Displayed-value map: (row, type) -> value; last line wins, 0 means nothing."""

    def __init__(self):
        self.v = {}

    def apply(self, events):
        for (t, row, ty, val) in events:
            self.v[(row, ty)] = val

    def get(self, row, ty):
        return self.v.get((row, ty), 0)

    def copy(self):
        d = Display()
        d.v = dict(self.v)
        return d
