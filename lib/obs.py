"""Independent reader/writer of ovni runtime traces (stream.obs + stream.json).

Written from doc/user/runtime/trace_spec.md only: 8-byte header ("ovni" +
u32 version 1), events = 1 byte flags (high nibble: 0x1 jumbo; low nibble:
payload size code, 0 = none, v = v+1 bytes), 3 bytes MCV, u64 clock, payload;
a jumbo event has a 4-byte payload holding the size of the data that follows.
"""
import json, os, struct

MAGIC = b"ovni"
HDR = MAGIC + struct.pack("<I", 1)


class Ev:
    __slots__ = ("mcv", "clock", "payload", "jumbo", "flags", "off", "raw")

    def __init__(self, mcv, clock, payload=b"", jumbo=None, flags=None, off=None, raw=None):
        self.mcv = mcv
        self.clock = clock
        self.payload = payload
        self.jumbo = jumbo
        self.flags = flags
        self.off = off
        self.raw = raw

    def key(self):
        return (self.mcv, self.clock, bytes(self.payload), None if self.jumbo is None else bytes(self.jumbo))

    def __repr__(self):
        j = "" if self.jumbo is None else " J%d" % len(self.jumbo)
        return "%s@%d[%s]%s" % (self.mcv, self.clock, self.payload.hex(), j)


def enc(mcv, clock, payload=b"", jumbo=None):
    """Encode one event.  payload: 0 or 2..16 bytes (normal) ; jumbo: bytes or None."""
    if isinstance(mcv, str):
        mcv = mcv.encode("latin1")
    if jumbo is not None:
        flags = 0x10 | 0x03
        return bytes([flags]) + mcv + struct.pack("<Q", clock & (2**64 - 1)) + struct.pack("<I", len(jumbo)) + jumbo
    n = len(payload)
    assert n == 0 or 2 <= n <= 16, n
    flags = 0 if n == 0 else (n - 1)
    return bytes([flags]) + mcv + struct.pack("<Q", clock & (2**64 - 1)) + payload


class ParseError(Exception):
    pass


def parse(data, strict=True):
    """Decode a stream.obs byte string into a list of Ev.  Raises ParseError when
    the bytes do not tile exactly (truncated trailing event, bad header)."""
    if len(data) < 8:
        raise ParseError("incomplete header")
    if data[:4] != MAGIC:
        raise ParseError("bad magic")
    if struct.unpack_from("<I", data, 4)[0] != 1:
        raise ParseError("bad version")
    off = 8
    out = []
    n = len(data)
    while off < n:
        if off + 12 > n:
            raise ParseError("truncated event header at %d" % off)
        flags = data[off]
        mcv = data[off + 1:off + 4].decode("latin1")
        clock = struct.unpack_from("<Q", data, off + 4)[0]
        code = flags & 0x0f
        psz = 0 if code == 0 else code + 1
        if off + 12 + psz > n:
            raise ParseError("truncated payload at %d" % off)
        payload = data[off + 12:off + 12 + psz]
        jumbo = None
        size = 12 + psz
        if flags & 0x10:
            if psz < 4:
                raise ParseError("jumbo without size field at %d" % off)
            jsz = struct.unpack_from("<I", payload, 0)[0]
            # the jumbo payload is the 4-byte size + data
            if off + 12 + 4 + jsz > n:
                raise ParseError("truncated jumbo data at %d" % off)
            jumbo = data[off + 16:off + 16 + jsz]
            size = 12 + 4 + jsz
            payload = payload[:4]
        if strict and (flags & 0xe0):
            raise ParseError("reserved flag bits set at %d" % off)
        out.append(Ev(mcv, clock, payload, jumbo, flags, off, data[off:off + size]))
        off += size
    return out


def validate_stream(data):
    """Trace-specification validity of one binary stream (what C02 demands):
    exact tiling, non-decreasing clocks, OF[ / OF] strictly alternating."""
    evs = parse(data)
    last = None
    inflush = False
    for e in evs:
        if last is not None and e.clock < last:
            raise ParseError("clock goes backwards at offset %d: %d -> %d" % (e.off, last, e.clock))
        last = e.clock
        if e.mcv == "OF[":
            if inflush:
                raise ParseError("nested OF[ at offset %d" % e.off)
            inflush = True
        elif e.mcv == "OF]":
            if not inflush:
                raise ParseError("OF] without OF[ at offset %d" % e.off)
            inflush = False
    if inflush:
        raise ParseError("unterminated OF[")
    return evs


# ---------------------------------------------------------------------------
# trace directories
# ---------------------------------------------------------------------------
def stream_meta(tid, pid, loom, app_id=1, cpus=None, require=None, rank=None, nranks=None,
                finished=True, version=3, libver="1.11.0", extra=None):
    ov = {"lib": {"version": libver, "commit": "verif"}, "part": "thread", "tid": tid, "pid": pid,
          "loom": loom}
    if app_id is not None:
        ov["app_id"] = app_id
    ov["require"] = dict(require if require is not None else {"ovni": "1.1.0"})
    if rank is not None:
        ov["rank"] = rank
    if nranks is not None:
        ov["nranks"] = nranks
    if cpus is not None:
        ov["loom_cpus"] = [{"index": i, "phyid": p} for (i, p) in cpus]
    if finished:
        ov["finished"] = 1
    m = {"version": version, "ovni": ov}
    if extra:
        for k, v in extra.items():
            if k == "ovni":
                ov.update(v)
            else:
                m[k] = v
    return m


def relpath(loom, pid, tid):
    return "loom.%s/proc.%d/thread.%d" % (loom, pid, tid)


def write_stream(tracedir, rel, meta, events_bytes):
    d = os.path.join(tracedir, rel)
    os.makedirs(d, exist_ok=True)
    with open(os.path.join(d, "stream.json"), "w") as f:
        if isinstance(meta, (bytes, str)):
            f.write(meta if isinstance(meta, str) else meta.decode("latin1"))
        else:
            json.dump(meta, f, indent=1)
    with open(os.path.join(d, "stream.obs"), "wb") as f:
        f.write(events_bytes)
    return d


def find_streams(tracedir):
    out = []
    for dp, dn, fn in os.walk(tracedir):
        if "stream.json" in fn or "stream.obs" in fn:
            out.append(os.path.relpath(dp, tracedir))
    return sorted(out)
