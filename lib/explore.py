"""Explicit-state search over the real emulator driven by a reference model.

A state of the search is (reference-model state, implementation hash); it is
materialised as the event history that reaches it, replayed by a pool of
emu_server processes (one per core).  Every event of the alphabet is probed
in every state and the verdict and the displayed Paraver values are compared
with the reference.
"""
import os, multiprocessing, itertools, time
from . import emusrv
from .emusrv import Ev, Fin
from .common import NCPU, InfraError

_srv = None
_cpu_counter = None


def _winit(exe, tracedir, flags, counter):
    global _srv
    with counter.get_lock():
        k = counter.value
        counter.value += 1
    try:
        os.sched_setaffinity(0, {k % (os.cpu_count() or 1)})
    except Exception:
        pass
    import shutil
    own = "%s.w%d" % (tracedir.rstrip("/"), k)
    if os.path.exists(own):
        shutil.rmtree(own)
    shutil.copytree(tracedir, own)   # finish probes write .prv/.pcf/.row: one directory per server
    _srv = emusrv.EmuServer(exe, own, flags)


def _wexpand(task):
    hist, probes, echo = task
    return _srv.expand(hist, probes, echo)


_ref = None
_cfg = None


def _winit2(exe, tracedir, flags, counter, ref, cfg):
    global _ref, _cfg
    _winit(exe, tracedir, flags, counter)
    _ref, _cfg = ref, cfg


def _weval(task):
    """Expands one state in a worker: probes the whole alphabet and evaluates the oracle there.
    Returns plain data; the parent only merges, deduplicates and reports."""
    s, hist, disp, tclk = task
    ref, cfg = _ref, _cfg
    prefix = cfg["prefix"]
    a = ref.alphabet(s)
    hres, pres = _srv.expand(prefix + hist, [ev for (_, ev) in a], False)
    out = {"viol": [], "succ": [], "soft": [], "softmsg": {}, "outc": set(), "err": None, "probes": 0, "accepted": 0, "refused": 0,
           "soft_mismatch": 0, "display_checks": 0, "finish_probes": 0, "learn": None}
    if not hres or not hres.get("ok"):
        out["err"] = "history replay diverged (nondeterminism?): %r on %r" % (hres, short_hist(hist))
        return out

    def viol(kind, label, ev, detail, st):
        out["viol"].append((kind, label, hist, ev, detail, repr(st)))

    def check_display(s2, d2, ev, label):
        if hasattr(ref, "learn"):
            ref.learn(s2, d2)
        exp = ref.display(s2)
        out["display_checks"] += len(exp)
        told = set()       # one mismatch per property it belongs to (a thread-row mismatch must not hide a CPU-row one)
        for k, v in exp.items():
            got = d2.get(k, 0)
            if (got not in v) if isinstance(v, (tuple, set, frozenset)) else (got != v):
                who = ref.attribute("display", (label, k))
                if who in told:
                    continue
                told.add(who)
                viol("display", (label, k), ev, "%s row %d type %d shows %d, reference says %s" % (k[0], k[1], k[2], got, v), s2)
    for (label, ev), r in zip(a, pres):
        out["probes"] += 1
        if r is None:
            out["err"] = "no reply for probe %s" % (label,)
            return out
        expect, s2, why = ref.step(s, label)
        out["outc"].add((str(label).split("(")[0] if isinstance(label, str) else str(label[0]), r.status, expect))
        if r.crashed:
            viol("crash", label, ev, "emulator died with %s: %s" % (r.code, r.msg), s)
            continue
        if isinstance(ev, Fin):
            out["finish_probes"] += 1
            if expect == "ok" and not r.ok:
                viol("finish-refused", label, ev, "expected success (%s); got: %s" % (why, r.msg), s)
            elif expect == "fail" and r.ok:
                viol("finish-accepted", label, ev, "expected failure (%s) but emulation finished ok" % why, s)
            fh = cfg.get("finish_hook")
            if fh is not None:
                for kind, text in fh(s, hist, ev, r, expect):
                    viol(kind, label, ev, text, s)
            continue
        if r.ok:
            out["accepted"] += 1
        else:
            out["refused"] += 1
        if expect == "ok" and not r.ok:
            viol("refused-legal", label, ev, "model: legal (%s); emulator: %s" % (why, r.msg), s)
            continue
        if expect == "fail" and r.ok:
            viol("accepted-illegal", label, ev, "model: illegal (%s); emulator accepted it" % why, s)
            continue
        if expect == "soft":
            legal = s2 is not None
            if legal != r.ok:
                out["soft_mismatch"] += 1
                import re as _re2
                mk = ("enabled-but-refused: " if legal else "disabled-but-accepted: ") + _re2.sub(r"[0-9]+", "N", (r.msg or "")[:80])
                out["softmsg"][mk] = out["softmsg"].get(mk, 0) + 1
                if len(out["soft"]) < 2:
                    out["soft"].append({"history": short_hist(hist), "event": ev.short(), "model_enabled": legal,
                                        "emulator": r.status, "msg": r.msg})
        if not r.ok or s2 is None:
            continue
        dt = ev[1]
        t2 = tclk + dt if hist else 0
        d2 = dict(disp)
        bad_time = None
        for (n, row, tm, ty, val) in r.lines:
            d2[(n, row, ty)] = val
            if tm != t2:
                bad_time = (n, row, tm, ty, val)
        if cfg["check_time"] and bad_time is not None:
            viol("line-time", label, ev, "PRV line %r not stamped with the event time %d" % (bad_time, t2), s)
        check_display(s2, d2, ev, label)
        out["succ"].append((s2, ev, r.hash, d2, t2))
    if hasattr(ref, "learn_map"):
        out["learn"] = dict(ref.learn_map)
    return out


class ServerPool:
    def __init__(self, exe, tracedir, flags=(), workers=None):
        self.exe, self.tracedir, self.flags = exe, tracedir, list(flags)
        self.workers = workers or NCPU
        # one server in the parent for metadata (and small jobs)
        self.local = emusrv.EmuServer(exe, tracedir, flags)
        self.pool = None
        self._mode = None
        self.meta = None     # {"spec":..., "require":..., "extra_meta":...} set by the check (for replay files)

    def _ensure(self, mode, ref=None, cfg=None):
        if self.pool is not None and self._mode == mode:
            return
        if self.pool is not None:
            self.pool.terminate()
            self.pool.join()
        ctx = multiprocessing.get_context("fork")
        counter = ctx.Value("i", 0)
        if mode == "expand":
            self.pool = ctx.Pool(self.workers, initializer=_winit, initargs=(self.exe, self.tracedir, self.flags, counter))
        else:
            self.pool = ctx.Pool(self.workers, initializer=_winit2,
                                 initargs=(self.exe, self.tracedir, self.flags, counter, ref, cfg))
        self._mode = mode

    def expand_many(self, tasks, echo=False):
        """tasks: list of (history, probes).  Returns list of (hres, [PRes])."""
        if not tasks:
            return []
        if len(tasks) == 1:
            return [self.local.expand(tasks[0][0], tasks[0][1], echo)]
        self._ensure("expand")
        cs = max(1, min(16, len(tasks) // (self.workers * 4)))
        return self.pool.map_async(_wexpand, [(h, p, echo) for (h, p) in tasks], chunksize=cs).get(timeout=3600)

    def eval_many(self, ref, cfg, tasks, key):
        """tasks: list of (state, history, display, clock); oracle evaluated in the workers."""
        self._ensure(("eval", key), ref, cfg)
        cs = max(1, min(8, len(tasks) // (self.workers * 4)))
        return self.pool.map_async(_weval, tasks, chunksize=cs).get(timeout=7200)

    def close(self):
        self.local.close()
        if self.pool is not None:
            self.pool.terminate()
            self.pool.join()


class Ref:
    """Interface of a reference model (all methods pure)."""

    def init(self):
        raise NotImplementedError

    def key(self, s):
        return s

    def alphabet(self, s):
        """list of (label, Ev|Fin)"""
        raise NotImplementedError

    def step(self, s, label):
        """-> (expect, s2, why); expect in 'ok','fail','soft'; s2 may be None"""
        raise NotImplementedError

    def display(self, s):
        """{(trace,row,type): value} for everything the model has an opinion on"""
        return {}

    def attribute(self, kind, label):
        """property id a violation of `kind` on `label` belongs to (None = report under the running check)"""
        return None


def short_hist(h):
    return [e.short() for e in h]


class Explorer:
    def __init__(self, ctx, pool, ref, name="walk", report_props=None, check_time=True, max_states=None,
                 max_depth=None, keep_disp=True):
        self.ctx, self.pool, self.ref, self.name = ctx, pool, ref, name
        self.report_props = report_props  # set of property ids this run may report; None = all
        self.check_time = check_time
        self.max_states = max_states
        self.max_depth = max_depth
        self.stats = {"states": 0, "model_states": 0, "probes": 0, "accepted": 0, "refused": 0,
                      "soft_mismatch": 0, "abstraction_splits": 0, "display_checks": 0,
                      "finish_probes": 0, "depth": 0, "outcomes": 0}
        self.soft_samples = []
        self.soft_classes = {}
        self.outcomes = set()
        self.finish_hook = None  # fn(state, history, PRes) -> list of (kind, text)
        self.states_by_depth = []
        self.bind_depth = 2
        self.shallow = []      # histories of all states up to bind_depth (for the binding pass)
        self.parallel = os.environ.get("VERIF_SERIAL_ORACLE") is None

    def _viol(self, kind, label, hist, probe, detail, state=None):
        prop = self.ref.attribute(kind, label)
        if self.report_props is not None and prop is not None and prop not in self.report_props:
            self.ctx.part(self.name, other_property_anomalies=1)
            return
        pool_meta = getattr(self.pool, "meta", None) or (getattr(self.pool.pool, "meta", None) if hasattr(self.pool, "prefix") else None)
        prefix = getattr(self.pool, "prefix", [])
        replay = {"engine": "E3 emu_server", "walk": self.name, "tracedir_spec": getattr(self.ref, "spec", None), "system": pool_meta,
                  "prefix": [e.line() for e in prefix],
                  "flags": self.pool.flags, "history": [e.line() for e in hist],
                  "probe": probe.line() if probe is not None else None, "kind": kind,
                  "label": str(label), "detail": detail, "model_state": repr(state)}
        match = {"kind": kind, "label": str(label), "walk": self.name}
        # a reference model may tag its reason with [cause=...]: lets a known finding name one specific class of inputs
        import re as _re
        m = _re.search(r"\[cause=([\w-]+)\]", str(detail))
        if m:
            match["cause"] = m.group(1)
            # ... and what the emulator said, so that a known finding stays tied to one refusal and not to every refusal there
            match["refusal"] = "duplicate-value" if "same value as last_value" in str(detail) else "other"
        self.ctx.violation("%s: %s on %s after %s: %s" % (self.name, kind, label, short_hist(hist), detail),
                           replay, match=match)

    def run(self):
        if self.parallel:
            return self.run_parallel()
        return self.run_serial()

    def run_parallel(self):
        """Same search as run_serial(), but probing *and* oracle evaluation happen in the worker
        processes (the parent only deduplicates states and reports), so all cores are used."""
        ctx, ref = self.ctx, self.ref
        inner = self.pool.pool if hasattr(self.pool, "prefix") else self.pool
        prefix = list(getattr(self.pool, "prefix", []))
        cfg = {"prefix": prefix, "check_time": self.check_time, "finish_hook": self.finish_hook}
        s0 = ref.init()
        h0, _ = self.pool.local.expand([], [])
        if not h0 or not h0.get("ok"):
            raise InfraError("cannot get initial state from emu_server: %r" % (h0,))
        disp0 = {}
        for (n, row, tm, ty, val) in self.pool.local.init_lines:
            disp0[(n, row, ty)] = val
        seen = {(ref.key(s0), h0["hash"])}
        model_seen = {ref.key(s0)}
        frontier = [(s0, [], disp0, 0)]
        depth = 0
        self._check_display(s0, disp0, [], None, "init")
        while frontier:
            if self.max_depth is not None and depth > self.max_depth:
                ctx.cap("%s: depth limit %d" % (self.name, self.max_depth))
                break
            results = inner.eval_many(ref, cfg, frontier, id(self))
            nxt = []
            for (s, hist, disp, tclk), out in zip(frontier, results):
                self.stats["states"] += 1
                if out["err"]:
                    raise InfraError(out["err"])
                for k in ("probes", "accepted", "refused", "soft_mismatch", "display_checks", "finish_probes"):
                    self.stats[k] += out[k]
                self.outcomes |= out["outc"]
                for x in out["soft"]:
                    if len(self.soft_samples) < 8:
                        self.soft_samples.append(x)
                for mk, n in out.get("softmsg", {}).items():
                    self.soft_classes[mk] = self.soft_classes.get(mk, 0) + n
                if out["learn"] and hasattr(ref, "learn_map"):
                    ref.learn_map.update(out["learn"])
                for (kind, label, h, ev, detail, st) in out["viol"]:
                    self._viol(kind, label, h, ev, detail, st)
                for (s2, ev, hsh, d2, t2) in out["succ"]:
                    k2 = (ref.key(s2), hsh)
                    if k2 in seen:
                        continue
                    seen.add(k2)
                    if ref.key(s2) in model_seen:
                        self.stats["abstraction_splits"] += 1
                    else:
                        model_seen.add(ref.key(s2))
                    nxt.append((s2, hist + [ev], d2, t2))
                    if depth + 1 <= self.bind_depth:
                        self.shallow.append(hist + [ev])
                if ctx.too_many():
                    break
            self.states_by_depth.append(len(frontier))
            depth += 1
            frontier = nxt
            if ctx.too_many():
                break
            if self.max_states is not None and len(seen) > self.max_states and frontier:
                ctx.cap("%s: state cap %d reached at depth %d" % (self.name, self.max_states, depth))
                break
            if ctx.out_of_time(0.8) and frontier:
                ctx.cap("%s: deadline reached at depth %d with %d states on the frontier" % (self.name, depth, len(frontier)))
                break
        self.stats["depth"] = depth
        self.stats["model_states"] = len(model_seen)
        self.stats["outcomes"] = len(self.outcomes)
        self.model_seen = model_seen
        ctx.add(states=len(seen), transitions=self.stats["probes"], evaluations=self.stats["probes"])
        st = dict(self.stats)
        st["states_by_depth"] = self.states_by_depth
        st["soft_samples"] = self.soft_samples
        st["soft_classes"] = self.soft_classes
        st["distinct_outcomes"] = sorted(map(str, self.outcomes))[:60]
        ctx.part(self.name, **st)
        return self.stats

    def run_serial(self):
        ctx, ref = self.ctx, self.ref
        s0 = ref.init()
        h0, _ = self.pool.local.expand([], [])
        if not h0 or not h0.get("ok"):
            raise InfraError("cannot get initial state from emu_server: %r" % (h0,))
        disp0 = {}
        for (n, row, tm, ty, val) in self.pool.local.init_lines:
            disp0[(n, row, ty)] = val
        seen = {(ref.key(s0), h0["hash"])}
        model_seen = {ref.key(s0)}
        frontier = [(s0, [], disp0, 0)]
        depth = 0
        self._check_display(s0, disp0, [], None, "init")
        while frontier:
            if self.max_depth is not None and depth > self.max_depth:
                ctx.cap("%s: depth limit %d" % (self.name, self.max_depth))
                break
            tasks = []
            alph = []
            for (s, hist, disp, tclk) in frontier:
                a = ref.alphabet(s)
                alph.append(a)
                tasks.append((hist, [ev for (_, ev) in a]))
            results = self.pool.expand_many(tasks)
            nxt = []
            for (s, hist, disp, tclk), a, (hres, pres) in zip(frontier, alph, results):
                self.stats["states"] += 1
                if not hres or not hres.get("ok"):
                    raise InfraError("history replay diverged (nondeterminism?): %r on %r" % (hres, short_hist(hist)))
                for (label, ev), r in zip(a, pres):
                    self.stats["probes"] += 1
                    if r is None:
                        raise InfraError("no reply for probe %s" % (label,))
                    expect, s2, why = ref.step(s, label)
                    self.outcomes.add((str(label).split("(")[0] if isinstance(label, str) else str(label[0]), r.status, expect))
                    if r.crashed:
                        self._viol("crash", label, hist, ev, "emulator died with %s: %s" % (r.code, r.msg), s)
                        continue
                    if isinstance(ev, Fin):
                        self.stats["finish_probes"] += 1
                        if expect == "ok" and not r.ok:
                            self._viol("finish-refused", label, hist, ev, "expected success (%s); got: %s" % (why, r.msg), s)
                        elif expect == "fail" and r.ok:
                            self._viol("finish-accepted", label, hist, ev, "expected failure (%s) but emulation finished ok" % why, s)
                        if self.finish_hook is not None:
                            for kind, text in self.finish_hook(s, hist, ev, r, expect):
                                self._viol(kind, label, hist, ev, text, s)
                        continue
                    if r.ok:
                        self.stats["accepted"] += 1
                    else:
                        self.stats["refused"] += 1
                    if expect == "ok" and not r.ok:
                        self._viol("refused-legal", label, hist, ev, "model: legal (%s); emulator: %s" % (why, r.msg), s)
                        continue
                    if expect == "fail" and r.ok:
                        self._viol("accepted-illegal", label, hist, ev, "model: illegal (%s); emulator accepted it" % why, s)
                        continue
                    if expect == "soft":
                        legal = s2 is not None
                        if legal != r.ok:
                            self.stats["soft_mismatch"] += 1
                            if len(self.soft_samples) < 8:
                                self.soft_samples.append({"history": short_hist(hist), "event": ev.short(),
                                                          "model_enabled": legal, "emulator": r.status, "msg": r.msg})
                    if not r.ok or s2 is None:
                        continue
                    # accepted and the model knows the successor: compare what is displayed
                    dt = ev[1]
                    t2 = tclk + dt if hist else 0
                    d2 = dict(disp)
                    bad_time = None
                    for (n, row, tm, ty, val) in r.lines:
                        d2[(n, row, ty)] = val
                        if tm != t2:
                            bad_time = (n, row, tm, ty, val)
                    if self.check_time and bad_time is not None:
                        self._viol("line-time", label, hist, ev, "PRV line %r not stamped with the event time %d" % (bad_time, t2), s)
                    self._check_display(s2, d2, hist, ev, label)
                    k2 = (ref.key(s2), r.hash)
                    if k2 in seen:
                        continue
                    seen.add(k2)
                    if ref.key(s2) in model_seen:
                        self.stats["abstraction_splits"] += 1
                    else:
                        model_seen.add(ref.key(s2))
                    nxt.append((s2, hist + [ev], d2, t2))
                    if depth + 1 <= self.bind_depth:
                        self.shallow.append(hist + [ev])
                if ctx.too_many():
                    break
            self.states_by_depth.append(len(frontier))
            depth += 1
            frontier = nxt
            if ctx.too_many():
                break
            if self.max_states is not None and len(seen) > self.max_states and frontier:
                ctx.cap("%s: state cap %d reached at depth %d" % (self.name, self.max_states, depth))
                break
            if ctx.out_of_time(0.8) and frontier:
                ctx.cap("%s: deadline reached at depth %d with %d states on the frontier" % (self.name, depth, len(frontier)))
                break
        self.stats["depth"] = depth
        self.stats["model_states"] = len(model_seen)
        self.stats["outcomes"] = len(self.outcomes)
        self.model_seen = model_seen
        ctx.add(states=len(seen), transitions=self.stats["probes"], evaluations=self.stats["probes"])
        st = dict(self.stats)
        st["states_by_depth"] = self.states_by_depth
        st["soft_samples"] = self.soft_samples
        st["distinct_outcomes"] = sorted(map(str, self.outcomes))[:60]
        ctx.part(self.name, **st)
        return self.stats

    def _check_display(self, s, disp, hist, ev, label):
        exp = self.ref.display(s)
        self.stats["display_checks"] += len(exp)
        told = set()
        for k, v in exp.items():
            got = disp.get(k, 0)
            if (got not in v) if isinstance(v, (tuple, set, frozenset)) else (got != v):
                who = self.ref.attribute("display", (label, k))
                if who in told:
                    continue
                told.add(who)
                self._viol("display", (label, k), hist, ev,
                           "%s row %d type %d shows %d, reference says %s" % (k[0], k[1], k[2], got, v), s)


def bind_shallow(ctx, build, system, pool, explorer, tag, emu_flags=("-l",), limit=400):
    """Binding pass over every state the explorer reached within its first levels: the same
    histories as real files through the real ovniemu (complete .prv texts and verdict compared)."""
    prefix = getattr(explorer.pool, "prefix", [])
    cases = [prefix + h for h in explorer.shallow[:limit]]
    if not cases:
        return 0
    inner = explorer.pool.pool if hasattr(explorer.pool, "prefix") else explorer.pool
    return binding_cases(ctx, build, system, inner, cases, tag, emu_flags=emu_flags)


def binding_cases(ctx, build, system, pool, cases, tag, prv_names=("thread.prv", "cpu.prv"), emu_flags=("-l",)):
    """Binds the exploration server to the shipped binary: every history in
    `cases` is written as real stream.obs files (independent writer), run
    through the real ovniemu built from the same tree, and exit status plus the
    complete .prv texts must equal what the server produces for the same
    history followed by finish."""
    import os
    from .common import pmap
    emu = build.tool("plain", "ovniemu")
    stream_of = {v: k for k, v in pool.local.streams.items()}
    base = os.path.join(os.path.dirname(pool.tracedir.rstrip("/")), "bind-" + tag)
    os.makedirs(base, exist_ok=True)
    lint = 1 if "-l" in emu_flags else 0

    def one(hist):
        td = os.path.join(base, "w%d" % os.getpid())
        emusrv.materialise(system, td, hist, stream_of)
        rc, out, err = emusrv.run_tool(emu, list(emu_flags) + [td])
        files = {}
        for n in prv_names:
            p = os.path.join(td, n)
            files[n] = open(p).read() if os.path.exists(p) else None
        return rc, files, err[-300:]
    real = pmap(one, cases)
    srv = pool.expand_many([(h, [Fin(lint)]) for h in cases])
    n = 0
    for hist, (rc, files, err), (hres, pres) in zip(cases, real, srv):
        n += 1
        rep = {"engine": "binding", "history": [e.line() for e in hist], "spec": system.spec, "flags": list(emu_flags)}
        if not hres.get("ok"):
            if rc == 0:
                ctx.violation("binding: server refused an event of %s but real ovniemu accepted the trace" % short_hist(hist),
                              rep, {"kind": "binding-verdict"})
            continue
        r = pres[0]
        if r.crashed or (rc == 0) != r.ok:
            ctx.violation("binding: verdicts differ for %s: real ovniemu exit=%r, server finish=%s (%s | %s)" % (
                short_hist(hist), rc, r.status, r.msg, err), rep, {"kind": "binding-verdict"})
            continue
        for nme in prv_names:
            if files[nme] != r.files.get(nme):
                rep2 = dict(rep)
                rep2.update({"real": files[nme], "server": r.files.get(nme)})
                ctx.violation("binding: %s differs between real ovniemu and server for %s" % (nme, short_hist(hist)),
                              rep2, {"kind": "binding-prv"})
                break
    ctx.add(traces_validated_against_impl=n)
    ctx.part("binding-" + tag, traces=n)
    return n
