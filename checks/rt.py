"""C01 (runtime stream fidelity) and C02 (protocol-conformant programs give valid,
accepted traces): exhaustive enumeration of API call sequences over the fill
level of the staging buffer, on the real libovni (harness/rt_driver.c)."""
import os, json, subprocess, shutil, struct, itertools, glob
from lib.common import Ctx, Build, Scratch, InfraError, REPO, pmap
from lib import obs, emusrv

REAL_B = 2 * 1024 * 1024


def pat(seed, n):
    return bytes(((seed * 131 + i * 7 + 3) & 0xff) for i in range(n))


def build_driver(build, bufsz, variant="san"):
    extra = ['-DVERIF_OVNI_C="%s"' % os.path.join(REPO, "src/rt/ovni.c")]
    if bufsz is not None:
        extra.append("-DVERIF_BUFSZ=%d" % bufsz)
    return build.harness(variant, "rt_driver%s" % (bufsz or "real"), ["rt_driver.c"], extra=extra)


def run_case(exe, casedir, ops, short="-", keep=False, tmpdir=False, fresh=True, rel=False, close0=False):
    if fresh and os.path.exists(casedir):
        shutil.rmtree(casedir)
    env = dict(os.environ)
    env.pop("VERIF_TMPDIR", None)
    env.pop("VERIF_RELTRACE", None)
    env.pop("VERIF_CLOSE0", None)
    if close0:
        env["VERIF_CLOSE0"] = "1"
    if rel:
        env["VERIF_RELTRACE"] = "1"
    if tmpdir:
        env["VERIF_TMPDIR"] = tmpdir if isinstance(tmpdir, str) else "1"
    env["ASAN_OPTIONS"] = "detect_leaks=0:abort_on_error=0:exitcode=99"
    env["UBSAN_OPTIONS"] = "halt_on_error=1:exitcode=98"
    try:
        r = subprocess.run([exe, casedir, short] + list(ops), stdout=subprocess.PIPE, stderr=subprocess.PIPE,
                           env=env, timeout=60)
        rc, err = r.returncode, r.stderr.decode("latin1")[-600:]
    except subprocess.TimeoutExpired:
        rc, err = "timeout", ""
    log = []
    try:
        log = open(os.path.join(casedir, "log.txt")).read().split("\n")
    except OSError:
        pass
    return rc, err, log


def expected_events(log):
    """Events handed to the API, in call order, as (mcv, clock, payload, jumbo) -- encoded
    independently from the log (pattern bytes are recomputed here)."""
    out = []
    fills = []
    writes = []
    for l in log:
        k = l.split(" ")
        if k[0] == "E":
            out.append((k[1], int(k[2]), pat(int(k[4]), int(k[3])), None))
        elif k[0] == "J":
            out.append((k[1], int(k[2]), struct.pack("<I", int(k[3])), pat(int(k[4]), int(k[3]))))
        elif k[0] == "K":
            out.append((k[1], int(k[2]), struct.pack("<q", int(k[3])) + struct.pack("<i", int(k[4])), None))
        elif k[0] == "R":
            if k[1] == "OHx":
                out.append(("OHx", int(k[2]), struct.pack("<iiQ", 0, 777, 0), None))
            else:
                out.append((k[1], int(k[2]), b"", None))
        elif k[0] == "S":
            fills.append(int(k[1]))
        elif k[0] == "W":
            writes.append((int(k[1]), int(k[2]), int(k[3])))
    return out, fills, writes


def stream_path(casedir):
    return os.path.join(casedir, "trace", "loom.L", "proc.777", "thread.777")


def check_fidelity(casedir, log):
    """C01 oracle. Returns None or a message."""
    exp, fills, writes = expected_events(log)
    if "DONE" not in log:
        if "ABORT" in log:
            return "ABORTED"    # judged by the caller (some programs are meant to be refused)
        return "driver did not finish (crash?)"
    try:
        data = open(os.path.join(stream_path(casedir), "stream.obs"), "rb").read()
    except OSError as e:
        return "no stream.obs: %s" % e
    if data[:8] != obs.HDR:
        return "stream does not begin with the documented 8-byte header: %r" % data[:8]
    try:
        evs = obs.parse(data)
    except obs.ParseError as e:
        return "stream does not parse: %s" % e
    user = [e for e in evs if e.mcv not in ("OF[", "OF]")]
    if len(user) != len(exp):
        return "stream holds %d user events, %d were emitted" % (len(user), len(exp))
    for i, (e, x) in enumerate(zip(user, exp)):
        mcv, clock, payload, jumbo = x
        if e.mcv != mcv or e.clock != clock or bytes(e.payload) != payload or \
                (None if e.jumbo is None else bytes(e.jumbo)) != jumbo:
            return "event #%d differs: emitted %s@%d payload=%s jumbo=%s, stream has %r" % (
                i, mcv, clock, payload.hex()[:40], None if jumbo is None else len(jumbo), e)
        want_flags = (0x13 if jumbo is not None else (0 if not payload else len(payload) - 1))
        if e.flags != want_flags:
            return "event #%d has flags %#x, expected %#x" % (i, e.flags, want_flags)
    for e in evs:
        if e.mcv in ("OF[", "OF]") and (e.payload or e.jumbo is not None):
            return "flush marker with payload at offset %d" % e.off
    return None


MANDATORY = ["version", "ovni.part", "ovni.tid", "ovni.pid", "ovni.loom", "ovni.app_id", "ovni.require.ovni",
             "ovni.loom_cpus", "ovni.finished", "ovni.lib.version", "ovni.lib.commit"]


def check_valid(casedir, sp=None, optional=()):
    """C02 oracle part 1: the stream conforms to the trace specification."""
    sp = sp or stream_path(casedir)
    try:
        data = open(os.path.join(sp, "stream.obs"), "rb").read()
        meta = json.load(open(os.path.join(sp, "stream.json")))
    except (OSError, ValueError) as e:
        return "trace incomplete: %s" % e
    try:
        obs.validate_stream(data)
    except obs.ParseError as e:
        return "stream violates the trace specification: %s" % e
    for k in MANDATORY:
        if k in optional:
            continue
        cur = meta
        for part in k.split("."):
            if not isinstance(cur, dict) or part not in cur:
                return "metadata lacks %s" % k
            cur = cur[part]
    if meta["version"] != 3 or meta["ovni"]["finished"] != 1 or meta["ovni"]["part"] != "thread":
        return "metadata has wrong version/finished/part"
    return None


# ---------------------------------------------------------------------------
def fill_graph(ctx, exe, scratch, B, ops_fn, tag, prop, oracle, emu=None, max_states=None):
    """Complete graph search over the fill level of the staging buffer: the add
    path depends on history only through evlen, so a state is evlen; every
    operation of the alphabet is executed in every reachable state (reached by
    the shortest program found), and the whole resulting trace is checked."""
    base = scratch.sub("fill-" + tag)
    seen = {0: []}          # evlen -> program reaching it
    frontier = [0]
    nruns = 0
    outcomes = set()
    while frontier:
        jobs = []
        for v in frontier:
            for op in ops_fn(v, B):
                jobs.append((v, op))

        def one(j):
            v, op = j
            cd = os.path.join(base, "c%d" % os.getpid())
            prog = seen[v] + [op]
            rc, err, log = run_case(exe, cd, prog)
            msg = oracle(cd, log, rc, err)
            exp, fills, writes = expected_events(log)
            after = fills[len(prog)] if len(fills) > len(prog) else None
            emu_msg = None
            if msg is None and emu is not None:
                emu_msg = emu(cd)
            return (v, op, rc, msg, after, emu_msg, len(writes))
        res = pmap(one, jobs)
        nxt = []
        for (v, op, rc, msg, after, emu_msg, nw) in res:
            nruns += 1
            outcomes.add((op[0], rc, nw > 2))
            if nw > 2:
                ctx.cov["runs_with_automatic_flush"] = ctx.cov.get("runs_with_automatic_flush", 0) + 1
            if msg == "ABORTED":
                outcomes.add(("abort", op[0]))
                if not must_accept(op, B):
                    continue
                msg = "the library aborted on a call the API accepts"
            if msg is not None or emu_msg is not None:
                ctx.violation("%s B=%d fill=%d op=%s: %s" % (tag, B, v, op, msg or emu_msg),
                              {"engine": "E1 rt_driver", "bufsz": B, "program": seen[v] + [op], "short": "-",
                               "oracle": prop}, {"kind": "fill-graph", "B": B, "op": op, "fill": v})
                continue
            if after is not None and after not in seen:
                if max_states is None or len(seen) < max_states:
                    seen[after] = seen[v] + [op]
                    nxt.append(after)
        frontier = sorted(nxt)
        if ctx.too_many() or ctx.out_of_time(0.8):
            if frontier:
                ctx.cap("%s: stopped with %d fill levels on the frontier" % (tag, len(frontier)))
            break
    ctx.add(states=len(seen), transitions=nruns, evaluations=nruns)
    ctx.part(tag, bufsz=B, fill_levels=len(seen), runs=nruns, outcomes=len(outcomes),
             max_fill=max(seen), min_fill=min(seen))
    return seen


def must_accept(op, B):
    """Calls the documented API accepts whatever the fill level: the library may not abort on them."""
    if op == "f":
        return True
    if op[0] in "eq":
        k = int(op[1:].split(":")[0].rstrip("r"))
        return k == 0 or 2 <= k <= 16
    if op[0] == "m" and op[1] in "pos":
        return int(op[2:]) != 0
    if op[0] == "j":
        return 16 + int(op[1:]) < B
    return False


def small_ops(v, B):
    ops = ["e0"] + ["e%d" % k for k in range(2, 17)] + ["f", "mp5"]
    # mark values are any 64-bit integer except 0
    ops += ["ms-1", "mp-3", "ms9223372036854775807"]
    # the event built in another order of the setters (payload in two parts first, then MCV, then clock)
    ops += ["e3r", "e16:8+8r"]
    # payloads one and two bytes beyond what an event holds, in one piece and in pieces: the library refuses them (an accepted one
    # would land as another event than the one handed over)
    ops += ["e17:17", "e17:8+9", "e17:15+2", "e17:4+4+9", "e18:9+9", "e18:16+2"]
    ops += ["j%d" % n for n in range(0, B - 16)]       # every jumbo size the API accepts (+ the first refused one)
    return ops


def emu_accepts(build):
    emu = build.tool("plain", "ovniemu")

    def f(cd):
        rc, out, err = emusrv.run_tool(emu, ["-l", os.path.join(cd, "trace")])
        if rc != 0 or "emulation finished ok" not in err:
            last = [l for l in err.split("\n") if "ERROR" in l][:2]
            return "ovniemu -l rejects the trace (exit %r): %s" % (rc, " | ".join(last))
        return None
    return f


def run_c01(prop, tier):
    ctx = Ctx("C01", tier, "model_checking")
    scratch = Scratch("C01")
    try:
        build = Build()

        def oracle(cd, log, rc, err):
            if rc in (99, 98) or (isinstance(rc, int) and rc < 0) or rc == "timeout":
                return "driver died: exit %r %s" % (rc, err[-300:])
            return check_fidelity(cd, log)

        # (i) small capacities: every reachable fill level x every operation
        for B in ([64, 97] if tier == "quick" else [64, 97, 128, 200]):
            exe = build_driver(build, B)
            fill_graph(ctx, exe, scratch, B, small_ops, "small-B%d" % B, "C01", oracle)
            if ctx.too_many():
                break
        # (ii) real capacity: window below the 2 MiB boundary
        exe = build_driver(build, None)
        base = scratch.sub("real")
        win = 40 if tier == "quick" else 100
        jobs = []
        for fill_target in range(REAL_B - win, REAL_B):
            # reach evlen = fill_target with one filler jumbo: evlen = 16 + n (the header is flushed at init)
            n = fill_target - 16
            ops2 = ["e0", "e2", "e16", "f", "mp1"] if tier == "quick" else ["e0"] + ["e%d" % k for k in range(2, 17)] + ["f", "mp1"]
            for op in ops2:
                jobs.append(["j%d" % n, op])
            for m in ((0, 1, 12, 100) if tier == "quick" else (0, 1, 2, 11, 12, 13, 27, 28, 29, 100)):
                jobs.append(["j%d" % n, "j%d" % m])
        # a jumbo landing exactly around the capacity, from an empty and from a non-empty buffer
        for tot in range(REAL_B - (30 if tier == "quick" else 70), REAL_B + 1):
            n = tot - 16
            jobs.append(["j%d" % n])
            jobs.append(["e0", "j%d" % n])
            if tier != "quick":
                jobs.append(["e16", "e3", "j%d" % n, "e0"])

        def one(prog):
            cd = os.path.join(base, "c%d" % os.getpid())
            rc, err, log = run_case(exe, cd, prog)
            msg = oracle(cd, log, rc, err)
            shutil.rmtree(cd, ignore_errors=True)
            return msg
        for prog, msg in zip(jobs, pmap(one, jobs)):
            ctx.add(evaluations=1, transitions=len(prog))
            if msg == "ABORTED":
                # only "event too large" may be refused: total size >= capacity
                n = int(prog[-1][1:]) if prog[-1][0] == "j" else int(prog[-2][1:])
                if 16 + n < REAL_B:
                    ctx.violation("real capacity: program %s aborted although every event fits" % prog,
                                  {"engine": "E1 rt_driver", "bufsz": None, "program": prog, "short": "-", "oracle": "C01"},
                                  {"kind": "real-abort"})
                continue
            if msg is not None:
                ctx.violation("real capacity (2 MiB), program %s: %s" % (prog, msg),
                              {"engine": "E1 rt_driver", "bufsz": None, "program": prog, "short": "-", "oracle": "C01"},
                              {"kind": "real-window", "program": " ".join(prog)})
        ctx.part("real-window", runs=len(jobs), window=win)
        ctx.add(states=win)
        # (ii-b) OVNI_TMPDIR: the stream is relocated at thread end by a chunked copy; total stream sizes around
        # every multiple of the copy chunk (1024) and of the stdio buffer (4096) up to 3 chunks / 2 buffers
        jobs_t = []
        for total in sorted(set(k * 1024 + d for k in (1, 2, 3, 4, 8) for d in (-1, 0, 1)) | set(range(8 + 28 + 16 + 28 + 24, 8 + 28 + 16 + 28 + 24 + 6))):
            # stream = header 8 + X 28 + jumbo (16 + n) + E 12 + final flush markers 24
            n = total - (8 + 28 + 16 + 12 + 24)
            if n >= 0:
                jobs_t.append(["X", "j%d" % n, "E"])
        jobs_t += [["X", "e16", "f", "j1000", "f", "e0", "E"], ["X", "mp1", "j3000", "mo1", "E"]]

        def one_t(prog):
            cd = os.path.join(base, "t%d" % os.getpid())
            rc, err, log = run_case(exe, cd, prog, tmpdir=True)
            msg = oracle(cd, log, rc, err)
            left = []
            for dp, dn, fn in os.walk(os.path.join(cd, "tmp")):
                left += fn
            shutil.rmtree(cd, ignore_errors=True)
            if msg is None and left:
                msg = "files left in OVNI_TMPDIR after a successful run: %r" % left
            return msg
        for prog, msg in zip(jobs_t, pmap(one_t, jobs_t)):
            ctx.add(evaluations=1, transitions=len(prog))
            if msg is not None:
                ctx.violation("OVNI_TMPDIR mode, program %s: %s" % (prog, msg),
                              {"engine": "E1 rt_driver", "bufsz": None, "program": prog, "short": "-", "oracle": "C01", "tmpdir": True},
                              {"kind": "tmpdir-relocation"})
        # OVNI_TMPDIR naming the trace directory itself (same string, or another spelling of the same directory)
        jobs_s = [(prog, how) for prog in jobs_t[:4] + jobs_t[-2:] for how in ("same", "alias")]

        def one_s(j):
            prog, how = j
            cd = os.path.join(base, "s%d" % os.getpid())
            rc, err, log = run_case(exe, cd, prog, tmpdir=how)
            msg = oracle(cd, log, rc, err)
            shutil.rmtree(cd, ignore_errors=True)
            return msg
        for (prog, how), msg in zip(jobs_s, pmap(one_s, jobs_s)):
            ctx.add(evaluations=1, transitions=len(prog))
            if msg == "ABORTED":
                continue        # refusing the configuration with a diagnostic loses nothing silently
            if msg is not None:
                ctx.violation("OVNI_TMPDIR is the trace directory itself (%s), program %s: %s" % (how, prog, msg),
                              {"engine": "E1 rt_driver", "bufsz": None, "program": prog, "short": "-", "oracle": "C01", "tmpdir": how},
                              {"kind": "tmpdir-is-tracedir", "how": how})
        ctx.part("tmpdir-relocation", runs=len(jobs_t), tmpdir_is_tracedir_runs=len(jobs_s))
        # (iii) deviation-bounded short writes on every write of every path of depth <= 2/3 (small capacity)
        B = 64
        exe = build_driver(build, B)
        base = scratch.sub("short")
        alpha = ["e0", "e16", "j20", "j40", "f"]
        depth = 2 if tier == "quick" else 3
        progs = [list(p) for d in range(1, depth + 1) for p in itertools.product(alpha, repeat=d)]

        def learn(prog):
            cd = os.path.join(base, "c%d" % os.getpid())
            rc, err, log = run_case(exe, cd, prog)
            _, _, writes = expected_events(log)
            return writes
        wl = pmap(learn, progs)
        jobs = []
        for prog, writes in zip(progs, wl):
            for (idx, n, _) in writes:
                for ln in sorted(set([1, n // 2, n - 1])):
                    if 0 < ln < n:
                        jobs.append((prog, "%d:%d" % (idx, ln)))
                        if tier != "quick" or len(prog) == 1:
                            # second deviation: the continuation write is short again
                            rest = n - ln
                            if rest > 1:
                                jobs.append((prog, "%d:%d,%d:%d" % (idx, ln, idx + 1, 1)))

        def one2(j):
            prog, sh = j
            cd = os.path.join(base, "c%d" % os.getpid())
            rc, err, log = run_case(exe, cd, prog, sh)
            return oracle(cd, log, rc, err)
        for (prog, sh), msg in zip(jobs, pmap(one2, jobs)):
            ctx.add(evaluations=1, transitions=1)
            if msg is not None:
                ctx.violation("short write %s in program %s: %s" % (sh, prog, msg),
                              {"engine": "E1 rt_driver", "bufsz": B, "program": prog, "short": sh, "oracle": "C01"},
                              {"kind": "short-write"})
        ctx.part("short-writes", programs=len(progs), runs=len(jobs), max_deviations=1 if tier == "quick" else 2)
        # (iv) sequences (payload splits, marks, flushes) to completion, small capacity
        exe = build_driver(build, 97)
        base = scratch.sub("seq")
        alpha = ["e0", "e16:8+8", "e7:2+5", "e16:2+2+12", "j0", "j30", "j80", "f", "mp3", "mo3", "ms4"]
        depth = 3 if tier == "quick" else 4
        progs = [list(p) for p in itertools.product(alpha, repeat=depth)]

        def one3(prog):
            cd = os.path.join(base, "c%d" % os.getpid())
            rc, err, log = run_case(exe, cd, prog)
            return oracle(cd, log, rc, err)
        for prog, msg in zip(progs, pmap(one3, progs)):
            ctx.add(evaluations=1, transitions=len(prog))
            if msg == "ABORTED":
                continue
            if msg is not None:
                ctx.violation("sequence %s (B=97): %s" % (prog, msg),
                              {"engine": "E1 rt_driver", "bufsz": 97, "program": prog, "short": "-", "oracle": "C01"},
                              {"kind": "sequence"})
        ctx.part("sequences", depth=depth, alphabet=alpha, runs=len(progs))
        # (v) not from the initial state: the trace directory already holds the streams of an earlier run of a thread with
        # a thread that was flushed and freed asks for tracing again under the same id: refused or not, the events of its first
        # life stay in the stream, in order, at its beginning
        exe97 = build_driver(build, 97)
        zjobs = [(pre + ["Z"] + post, t) for pre in (["e0"], ["e16", "e3", "f", "e0"], ["j60", "e2"]) for post in ([], ["e0"], ["e16", "f"]) for t in (False, True)]

        def one_z(j):
            prog, t = j
            cd = os.path.join(scratch.sub("reinit"), "c%d" % os.getpid())
            rc, err, log = run_case(exe97, cd, prog, tmpdir=t)
            if rc in (99, 98) or (isinstance(rc, int) and rc < 0) or rc == "timeout":
                return "driver died: exit %r %s" % (rc, err[-300:])
            if "FREED" not in log:
                return "the first life did not complete: %s" % err[-200:]
            exp, _, _ = expected_events(log[:log.index("FREED")])
            try:
                evs = [e for e in obs.parse(open(os.path.join(stream_path(cd), "stream.obs"), "rb").read()) if e.mcv not in ("OF[", "OF]")]
            except (OSError, obs.ParseError) as e:
                return "after the second ovni_thread_init() the stream is gone or unreadable: %s" % e
            got = [(e.mcv, e.clock, bytes(e.payload), None if e.jumbo is None else bytes(e.jumbo)) for e in evs[:len(exp)]]
            if got != [tuple(x) for x in exp]:
                return "after the second ovni_thread_init() (%s) the stream no longer begins with the %d events of the first life: it holds %d events %r" % (
                    "accepted" if "REINIT" in log else "refused", len(exp), len(evs), [(e.mcv, e.clock) for e in evs[:4]])
            return None
        for (prog, t), msg in zip(zjobs, pmap(one_z, zjobs)):
            ctx.add(evaluations=1, transitions=len(prog), traces_validated_against_impl=1)
            if msg:
                ctx.violation("program %s%s: %s" % (prog, " (OVNI_TMPDIR)" if t else "", msg),
                              {"engine": "E1 rt_driver", "bufsz": 97, "program": prog, "short": "-", "oracle": "C01", "tmpdir": t}, {"kind": "second-init"})
        ctx.part("second-init-of-a-freed-thread", runs=len(zjobs))
        # a program without standard input (a daemon, a batch launcher): the stream is opened on descriptor 0
        c0jobs = [(p, t) for p in (["e0"], ["e16", "f", "e3"], ["j80", "e16", "e16", "e16", "e2"], ["mp5", "ms-1", "j40", "f", "f"], ["e16"] * 9)
                  for t in (False, True)]

        def one_c0(j):
            prog, t = j
            cd = os.path.join(base, "o%d" % os.getpid())
            rc, err, log = run_case(exe97, cd, prog, tmpdir=t, close0=True)
            msg = oracle(cd, log, rc, err)
            return "the library aborted: %s" % err.strip().split("\n")[-1][:200] if msg == "ABORTED" else msg
        for (prog, t), msg in zip(c0jobs, pmap(one_c0, c0jobs)):
            ctx.add(evaluations=1, transitions=len(prog), traces_validated_against_impl=1)
            if msg:
                ctx.violation("program %s%s without standard input (stream on descriptor 0): %s" % (prog, " (OVNI_TMPDIR)" if t else "", msg),
                              {"engine": "E1 rt_driver", "bufsz": 97, "program": prog, "short": "-", "oracle": "C01", "tmpdir": t, "close0": True},
                              {"kind": "no-stdin"})
        ctx.part("no-standard-input", runs=len(c0jobs))
        # the same pid/tid (a restarted job in a PID namespace); the second run's stream must hold the second run's events only
        first = [list(p) for p in itertools.product(alpha, repeat=2)] + [[a] for a in alpha] + [["j80", "j80", "j80", "e16:8+8"]]
        second = [[a] for a in alpha] + ([] if tier == "quick" else [list(p) for p in itertools.product(alpha[:6], repeat=2)])
        rr = [(a, b, t) for a in first for b in second for t in (False, True) if not (tier == "quick" and t and len(a) > 1)]

        def one5(j):
            a, b, t = j
            cd = os.path.join(base, "r%d" % os.getpid())
            rc, err, log = run_case(exe, cd, a, tmpdir=t)
            if "DONE" not in log:
                return "SKIP"
            n1 = os.path.getsize(os.path.join(stream_path(cd), "stream.obs"))
            rc, err, log = run_case(exe, cd, b, tmpdir=t, fresh=False)
            msg = oracle(cd, log, rc, err)
            if msg and msg != "ABORTED":
                n2 = os.path.getsize(os.path.join(stream_path(cd), "stream.obs"))
                return "%s (first run left %d bytes, the stream now has %d)" % (msg, n1, n2)
            return msg
        nshr = 0
        for (a, b, t), msg in zip(rr, pmap(one5, rr)):
            ctx.add(evaluations=1, transitions=len(a) + len(b))
            if msg in ("SKIP", "ABORTED"):
                continue
            nshr += 1
            if msg is not None:
                ctx.violation("second run %s in a trace directory that holds the stream of an earlier run %s of the same thread%s (B=97): %s" % (
                    b, a, " (OVNI_TMPDIR)" if t else "", msg),
                    {"engine": "E1 rt_driver", "bufsz": 97, "first_program": a, "program": b, "short": "-", "oracle": "C01", "tmpdir": t},
                    {"kind": "rerun-same-dir", "tmpdir": t})
        ctx.part("rerun-same-directory", runs=len(rr), judged=nshr)
        ctx.sample({"program": ["j2097099", "e16"], "meaning": "filler jumbo to fill level B-37, then a 28-byte event"})
        ctx.sample({"program": progs[len(progs) // 2], "bufsz": 97})
        ctx.cov["rule"] = ("state = fill level of the staging buffer; every operation (all payload sizes 0,2..16, every jumbo size, flush, "
                           "mark) executed in every reachable fill level for capacities 64/97(/128/200) and in the last 40/100 bytes below "
                           "the real 2 MiB capacity; short writes at every write of every path; the stream on disk is decoded by an independent "
                           "parser and compared byte-for-byte with the emit log; non-trivial = runs in which an automatic flush, the 2 MiB boundary window, a short write or the OVNI_TMPDIR relocation was exercised")
        # non-trivial = distinct runs in which the buffer-full boundary, a short write or the relocation copy was exercised
        ctx.cov["distinct_nontrivial"] = (ctx.cov.get("runs_with_automatic_flush", 0) + ctx.cov["parts"]["real-window"]["runs"]
                                          + ctx.cov["parts"]["short-writes"]["runs"] + ctx.cov["parts"]["tmpdir-relocation"]["runs"])
        ctx.cov["traces_validated_against_impl"] = ctx.cov["evaluations"]
        ctx.assumptions += ["payload bytes follow three deterministic patterns", "USE_TSC clock not covered",
                            "AddressSanitizer+UBSan on: a write past the staging buffer is a violation"]
        return ctx.finish()
    finally:
        scratch.cleanup()


def run_c02(prop, tier):
    ctx = Ctx("C02", tier, "model_checking")
    scratch = Scratch("C02")
    try:
        build = Build()
        emu = emu_accepts(build)

        def oracle(cd, log, rc, err):
            if rc in (99, 98) or (isinstance(rc, int) and rc < 0) or rc == "timeout":
                return "driver died: exit %r %s" % (rc, err[-300:])
            if "DONE" not in log:
                return "ABORTED" if "ABORT" in log else "driver did not finish"
            return check_valid(cd)

        def proto(ops):
            return ["X"] + ops + ["E"]
        # small capacities: fill-level graph, every op, protocol-conformant program around it
        for B in ([97] if tier == "quick" else [64, 97, 128]):
            exe = build_driver(build, B)

            def ops_fn(v, B):
                return ["e0"] + ["e%d" % k for k in range(2, 17)] + ["f", "mp5"] + ["j%d" % n for n in range(0, B - 16)]
            base = scratch.sub("proto-B%d" % B)
            # reach fill levels with conformant programs: X first, E last
            seen = {None: None}
            states = {}
            # BFS over fill levels after "X" + prefix
            frontier = [[]]
            fillseen = set()
            runs = 0
            while frontier:
                jobs = []
                for pre in frontier:
                    for op in ops_fn(0, B):
                        jobs.append(pre + [op])

                def one(ops):
                    cd = os.path.join(base, "c%d" % os.getpid())
                    prog = proto(ops)
                    rc, err, log = run_case(exe, cd, prog)
                    msg = oracle(cd, log, rc, err)
                    _, fills, _ = expected_events(log)
                    after = fills[len(ops) + 1] if len(fills) > len(ops) + 1 else None
                    emsg = emu(cd) if msg is None else None
                    return msg, emsg, after
                nxt = []
                for ops, (msg, emsg, after) in zip(jobs, pmap(one, jobs)):
                    runs += 1
                    if msg == "ABORTED":
                        continue
                    if msg is not None or emsg is not None:
                        ctx.violation("B=%d conformant program %s: %s" % (B, proto(ops), msg or emsg),
                                      {"engine": "E1 rt_driver", "bufsz": B, "program": proto(ops), "short": "-", "oracle": "C02"},
                                      {"kind": "proto-small", "B": B, "last_op_class": ops[-1][0]})
                        continue
                    if after is not None and after not in fillseen:
                        fillseen.add(after)
                        nxt.append(ops)
                frontier = nxt
                if ctx.too_many() or ctx.out_of_time(0.5):
                    if frontier:
                        ctx.cap("proto-B%d: frontier of %d left" % (B, len(frontier)))
                    break
            ctx.add(states=len(fillseen), transitions=runs, evaluations=runs, traces_validated_against_impl=runs)
            ctx.part("proto-B%d" % B, fill_levels=len(fillseen), runs=runs)
        # equal clocks are legal ("non-decreasing"): runs of events sharing one clock, across flushes too
        exe = build_driver(build, 97)
        base = scratch.sub("eq")
        # (no flush may fall between the events that share a clock: the flush markers carry later clocks)
        eqjobs = [["e0", "q0"], ["e16", "q16", "q0"], ["q0", "q2", "q3"], ["q16", "q0"], ["e2", "q2", "q2", "q2"]]
        # and short writes on conformant programs (the environment may return short counts at any write)
        swjobs = []
        for prog in (["e16", "e16", "e16", "e0"], ["j60", "e0"], ["e0", "f", "e16"]):
            for idx in range(0, 5):
                for ln in (1, 7):
                    swjobs.append((prog, "%d:%d" % (idx, ln)))

        def one_eq(j):
            prog, sh = j
            cd = os.path.join(base, "c%d" % os.getpid())
            rc, err, log = run_case(exe, cd, proto(prog) if "E" not in prog else ["X"] + prog, sh)
            msg = oracle(cd, log, rc, err)
            emsg = emu(cd) if msg is None else None
            return msg, emsg
        # explicit flushes after the end event (each flush leaves its markers behind the events it wrote: the stream then ends
        # with OHe OF[ OF], a thread that is over still flushing)
        tailjobs = [(["e0", "E", "f"], "-"), (["e0", "E", "f", "f"], "-"), (["e16", "e16", "e16", "E", "f", "f"], "-"), (["j60", "E", "f", "f", "f"], "-")]
        alljobs = [(p, "-") for p in eqjobs] + swjobs + tailjobs
        for (prog, sh), (msg, emsg) in zip(alljobs, pmap(one_eq, alljobs)):
            ctx.add(evaluations=1, transitions=len(prog) + 2, traces_validated_against_impl=1)
            if msg == "ABORTED":
                continue
            if msg is not None or emsg is not None:
                ctx.violation("B=97 conformant program %s%s: %s" % (proto(prog), "" if sh == "-" else " with short write " + sh, msg or emsg),
                              {"engine": "E1 rt_driver", "bufsz": 97, "program": proto(prog), "short": sh, "oracle": "C02"},
                              {"kind": "equal-clocks" if sh == "-" else "short-write"})
        ctx.part("equal-clocks-and-short-writes", runs=len(alljobs))
        # the metadata API among the events: attributes set and written out at any point (also as the last thing before the
        # thread ends); whatever the order, the metadata left behind is complete and carries the last value set
        from lib import catalog
        req = "R:nosv:" + catalog.load_events()["nosv"]["version"]
        mjobs = [list(t) for k in (1, 2, 3) for t in itertools.product(("as", "af", "e0", "f", req), repeat=k) if "as" in t or "af" in t]
        # string, boolean and JSON attributes, read back at once and found in the final metadata
        mjobs += [list(t) for k in (1, 2, 3) for t in itertools.product(("at", "as", "af"), repeat=k) if "at" in t]
        # metadata much larger than usual: a 6000-character attribute, 300 more CPUs
        mjobs += [list(t) for k in (1, 2) for t in itertools.product(("ab", "ac", "af", "as"), repeat=k) if "ab" in t or "ac" in t]

        def one_meta(prog):
            cd = os.path.join(base, "m%d" % os.getpid())
            rc, err, log = run_case(exe, cd, proto(prog))
            msg = oracle(cd, log, rc, err)
            if msg is None:
                sets = [int(l.split()[1]) for l in log if l.startswith("A ")]
                meta = json.load(open(os.path.join(stream_path(cd), "stream.json")))
                got = meta.get("verif", {}).get("a")
                if (sets and got != sets[-1]) or (not sets and got is not None):
                    msg = "attribute verif.a is %r in the final metadata, last set to %r" % (got, sets[-1] if sets else None)
                gl = [l for l in log if l.startswith("G ")]
                for l in gl:
                    n = int(l.split()[1])
                    before = [x for x in sets if x < n]
                    want_g = "G %d has=10 s=text-%d b=%d d=%s j={\"k\":[%d,2,{\"z\":null}]}" % (n, n, n & 1, ("%g" % before[-1]) if before else "-1", n)
                    if msg is None and l != want_g:
                        msg = "attributes read back right after they were set: %r, expected %r" % (l, want_g)
                if gl and msg is None:
                    n = int(gl[-1].split()[1])
                    v = meta.get("verif", {})
                    if v.get("s") != "text-%d" % n or v.get("b") != bool(n & 1) or v.get("j") != {"k": [n, 2, {"z": None}]}:
                        msg = "final metadata holds verif = %r, last set to text-%d / %r / {k: [%d, 2, {z: null}]}" % (v, n, bool(n & 1), n)
                cpus = sorted(set((c.get("index"), c.get("phyid")) for c in meta.get("ovni", {}).get("loom_cpus", [])))   # (adding a CPU twice is not judged)
                want = [(0, 0)] + ([(i, i + 2) for i in range(1, 301)] if "ac" in prog else [])
                if msg is None and cpus != want:
                    msg = "ovni.loom_cpus lists %d CPUs %r..., the program added %d" % (len(cpus), [c for c in cpus if c not in want][:3] or [c for c in want if c not in cpus][:3], len(want))
            emsg = emu(cd) if msg is None else None
            return msg, emsg
        for prog, (msg, emsg) in zip(mjobs, pmap(one_meta, mjobs)):
            ctx.add(evaluations=1, transitions=len(prog) + 2, traces_validated_against_impl=1)
            if msg == "ABORTED":
                msg = "the library aborted"
            if msg is not None or emsg is not None:
                ctx.violation("B=97 conformant program %s: %s" % (proto(prog), msg or emsg),
                              {"engine": "E1 rt_driver", "bufsz": 97, "program": proto(prog), "short": "-", "oracle": "C02"}, {"kind": "metadata-api"})
        ctx.part("metadata-api", runs=len(mjobs))
        # the trace directory is given relative to the working directory (the default "ovni" is) and the program changes its
        # working directory at some point of its life: still a conformant program
        cdjobs = []
        for prog in (["e16", "e0"], ["e16", "e16", "e16", "e0"], ["j60", "f", "e0"]):
            for pos in range(len(prog) + 1):
                for t in (False, True):
                    cdjobs.append((prog[:pos] + ["cd"] + prog[pos:], t))
            cdjobs.append((prog, False))        # control: relative directory, no chdir

        def one_cd(j):
            prog, t = j
            cd = os.path.join(base, "d%d" % os.getpid())
            rc, err, log = run_case(exe, cd, proto(prog), tmpdir=t, rel=True)
            msg = oracle(cd, log, rc, err)
            if msg == "ABORTED":
                return "the library aborted: %s" % err.strip().split("\n")[-1][:160], None
            emsg = emu(cd) if msg is None else None
            return msg, emsg
        for (prog, t), (msg, emsg) in zip(cdjobs, pmap(one_cd, cdjobs)):
            ctx.add(evaluations=1, transitions=len(prog) + 2, traces_validated_against_impl=1)
            if msg is not None or emsg is not None:
                ctx.violation("B=97 conformant program %s with a relative trace directory%s: %s" % (proto(prog), " (OVNI_TMPDIR)" if t else "", msg or emsg),
                              {"engine": "E1 rt_driver", "bufsz": 97, "program": proto(prog), "short": "-", "oracle": "C02", "tmpdir": t, "relative": True},
                              {"kind": "chdir"})
        ctx.part("working-directory", runs=len(cdjobs))
        # many streams: a conformant program with N threads (real pthreads, one after another, each on its own CPU).  Every stream
        # conforms, and the emulator accepts the trace -- also when the process may only hold far fewer descriptors than there
        # are streams (a stream file needs no descriptor once it is loaded)
        mexe = build.harness("san", "many_threads", ["many_threads.c"], extra=['-DVERIF_OVNI_C="%s"' % os.path.join(REPO, "src/rt/ovni.c")])
        emu_exe = build.tool("plain", "ovniemu")
        mruns = 0
        for nth in ((2, 70) if tier == "quick" else (1, 2, 3, 33, 70, 200)):
            cd = os.path.join(scratch.sub("many"), "n%d" % nth)
            env = dict(os.environ, ASAN_OPTIONS="detect_leaks=0:abort_on_error=0:exitcode=99", UBSAN_OPTIONS="halt_on_error=1:exitcode=98")
            r = subprocess.run([mexe, cd, str(nth)], stdout=subprocess.PIPE, stderr=subprocess.PIPE, env=env, timeout=120)
            mruns += 1
            msg = None
            if r.returncode != 0:
                msg = "the program failed (exit %d): %s" % (r.returncode, r.stderr.decode("latin1").strip().split("\n")[-1][:200])
            sdirs = sorted(glob.glob(os.path.join(cd, "trace", "loom.L", "proc.*", "thread.*")))
            if msg is None and len(sdirs) != nth:
                msg = "%d stream directories for %d threads" % (len(sdirs), nth)
            for sp in sdirs:
                if msg is None:
                    # (the CPUs of the loom are declared by one thread of the process: the initial one here)
                    initial = os.path.basename(sp).split(".")[1] == os.path.basename(os.path.dirname(sp)).split(".")[1]
                    m = check_valid(cd, sp, optional=(() if initial else ("ovni.loom_cpus",)))
                    if m:
                        msg = "%s: %s" % (os.path.basename(sp), m)
            if msg is None:
                for nofile in (None, 40):
                    rc, out, err = emusrv.run_tool(emu_exe, ["-l", os.path.join(cd, "trace")], nofile=nofile)
                    ctx.add(traces_validated_against_impl=1)
                    if rc != 0:
                        last = [l for l in err.strip().split("\n") if l][-3:]
                        msg = "ovniemu -l rejects the trace%s (exit %r): %s" % (
                            " with %d descriptors allowed" % nofile if nofile else "", rc, " | ".join(last)[:300])
                        break
            ctx.add(evaluations=1, transitions=nth * 8)
            if msg is not None:
                ctx.violation("conformant program with %d threads: %s" % (nth, msg),
                              {"engine": "E1 many_threads", "threads": nth, "oracle": "C02"}, {"kind": "many-threads", "threads": nth})
            shutil.rmtree(cd, ignore_errors=True)
        ctx.part("many-threads", runs=mruns)
        # real capacity: (fill before the jumbo) x (jumbo size) where a forced flush happens and the room
        # left afterwards is in [1, 64]
        exe = build_driver(build, None)
        base = scratch.sub("real")
        jobs = []
        room = range(1, 41) if tier == "quick" else range(1, 70)
        for r in room:
            tot = REAL_B - r           # total size of the jumbo event (header + size field + data)
            n = tot - 16
            for pre in ([["e0"]] if tier == "quick" else [["e0"], ["e16"], [], ["e16", "f", "e3"]]):
                jobs.append(pre + ["j%d" % n, "e0"])
        # plain events crossing the boundary
        for fill in range(REAL_B - (30 if tier == "quick" else 60), REAL_B):
            jobs.append(["j%d" % (fill - 16 - 28), "e16", "e0", "e2"])

        # every fourth boundary program also with OVNI_TMPDIR (streams relocated at thread end)
        jobs = [(ops, False) for ops in jobs] + [(ops, True) for ops in jobs[::4]]

        def one(j):
            ops, tmp = j
            cd = os.path.join(base, "c%d" % os.getpid())
            prog = proto(ops)
            rc, err, log = run_case(exe, cd, prog, tmpdir=tmp)
            msg = oracle(cd, log, rc, err)
            emsg = emu(cd) if msg is None else None
            shutil.rmtree(cd, ignore_errors=True)
            return msg, emsg
        for (ops, tmp), (msg, emsg) in zip(jobs, pmap(one, jobs)):
            ctx.add(evaluations=1, transitions=len(ops) + 2, traces_validated_against_impl=1)
            if msg == "ABORTED":
                continue
            if msg is not None or emsg is not None:
                js = [int(o[1:]) for o in ops if o[0] == "j"]
                ctx.violation("real capacity%s, conformant program %s: %s" % (" (OVNI_TMPDIR)" if tmp else "", proto(ops), msg or emsg),
                              {"engine": "E1 rt_driver", "bufsz": None, "program": proto(ops), "short": "-", "oracle": "C02", "tmpdir": tmp},
                              {"kind": "proto-real", "room_after_jumbo": (REAL_B - 16 - js[0]) if js else None})
        ctx.add(states=len(list(room)))
        ctx.part("real-boundary", runs=len(jobs))
        ctx.sample({"program": proto(["e0", "j%d" % (REAL_B - 16 - 20), "e0"]), "meaning": "near-capacity jumbo after a non-empty buffer"})
        ctx.cov["rule"] = ("protocol-conformant programs (init, cpu, OHx, ops, OHe, flush, free, fini) enumerated over every reachable fill level "
                           "x every operation for small capacities and over (fill, jumbo size) pairs leaving 1..40/69 bytes of room at the real "
                           "capacity; each trace validated by the independent parser (tiling, clocks, OF pairing, metadata) and by the real ovniemu -l")
        ctx.cov["distinct_nontrivial"] = ctx.cov["states"]
        ctx.assumptions += ["events use the MCV OB. (burst), whose payload the emulator ignores, so every size is accepted by the model"]
        return ctx.finish()
    finally:
        scratch.cleanup()


def run(prop, tier):
    return run_c01(prop, tier) if prop == "C01" else run_c02(prop, tier)
