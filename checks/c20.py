"""C20: the breakdown trace always holds the sorted per-CPU breakdown values.
 (a) sort_replace: every sorted array up to a length x every (old, new);
 (b) sort module with a real bay: complete graph over input vectors, 1..k simultaneous changes;
 (c) end to end with -b (nOS-V and Nanos6): explicit-state search on the real emulator; after every
     accepted event the breakdown rows must equal the sorted per-CPU values derived from the CPU rows."""
import os, subprocess
from lib.common import Ctx, Build, Scratch, InfraError, pmap, plan_of
from lib import emusrv, catalog
from lib.emusrv import Ev, Fin, i32, i64, u32
from lib.explore import ServerPool, short_hist

CFG = {"nosv": dict(ch="V", ss=13, ty=11, idle=16, bd=17, body=11, pv="nosv-breakdown", neutral=("VAs", "VAS")),
       "nanos6": dict(ch="6", ss=37, ty=36, idle=40, bd=41, body=1, pv="nanos6-breakdown", neutral=("6Wt", "6WT"))}


def cpu_value(disp, row, c, stale=()):
    """allowed breakdown values of one physical CPU, from what cpu.prv displays (property statement:
    task type while in a task body, otherwise the subsystem, replaced by the idle state when the CPU
    is not progressing)"""
    idle = disp.get(("cpu", row, c["idle"]), 0)
    ss = disp.get(("cpu", row, c["ss"]), 0)
    ty = disp.get(("cpu", row, c["ty"]), 0)
    if idle == 0:
        return {0}                      # nothing ever ran here
    if idle != 100:
        return {idle}                   # Resting / Absorbing
    if ss == c["body"]:
        if ty:
            return {ty}
        # no task runs although the body region is the innermost one (the task paused there): "otherwise the subsystem".
        # Only when the task went away *after* the subsystem last changed may the row be empty instead (the view does not
        # look at the task again until the subsystem changes - the mechanism behind known finding D12)
        return {0, ss} if row in stale else {ss}
    if ss != 0:
        return {ss}
    # progressing CPU whose thread has no instrumented section open: the "no/unknown subsystem" state (value 2); the view is
    # built so that a CPU with a running thread is never empty (the repository's breakdown-no-black test states the same)
    return {2}


def e2e(ctx, build, scratch, exe, cat, model, tier, looms=1):
    c = CFG[model]
    M = c["ch"]
    ncpu = 3

    def runners(disp, r):
        """threads shown as running on CPU row r by thread.prv (state row = Running, affinity row = that CPU)"""
        return [t for t in (1, 2) if disp.get(("thread", t, 4), 0) == 1 and disp.get(("thread", t, 6), 0) == r]

    if looms == 1:
        spec = [{"name": "A", "cpus": [(i, i) for i in range(ncpu)], "procs": [{"pid": 100, "threads": [101, 102]}]}]
        cpurows = [1, 2, 3]
        tids = [101, 102]
        start_cpu = [0, 1]
        ncpu_of = [3, 3]
    else:
        # two looms: the physical CPUs are rows 1, 2 and 4 of cpu.prv (each loom's virtual CPU follows its physical ones),
        # but rows 1..3 of the breakdown trace
        spec = [{"name": "A", "cpus": [(0, 0), (1, 1)], "procs": [{"pid": 100, "threads": [101]}]},
                {"name": "B", "cpus": [(0, 0)], "procs": [{"pid": 200, "threads": [201]}]}]
        cpurows = [1, 2, 4]
        tids = [101, 201]
        start_cpu = [0, 0]
        ncpu_of = [2, 1]
    req = {"ovni": cat["ovni"]["version"], model: cat[model]["version"]}
    system = emusrv.System(spec, require=req, extra_meta={"*": {model: {"can_breakdown": True}}})
    td = system.write(scratch.sub("t-%s-%d" % (model, looms)))
    pool = ServerPool(exe, td, ["-b"])
    pool.meta = system.meta if "system" in dir() else None
    try:
        if c["pv"] not in pool.local.pvts:
            raise InfraError("no %s trace with -b" % c["pv"])
        s0, s1 = 0, 1
        prefix = [Ev(s0, "OHx", i32(start_cpu[0], tids[0]) + i64(0)), Ev(s1, "OHx", i32(start_cpu[1], tids[1]) + i64(0))]
        if looms == 1:
            prefix += [Ev(s0, M + "Yc", b"", 1, u32(1) + b"ta\0"), Ev(s0, M + "Yc", b"", 1, u32(2) + b"tb\0"),
                       Ev(s0, M + "Tc", u32(1, 1)), Ev(s0, M + "Tc", u32(2, 2))]
        else:
            prefix += [Ev(s0, M + "Yc", b"", 1, u32(1) + b"ta\0"), Ev(s1, M + "Yc", b"", 1, u32(2) + b"tb\0"),
                       Ev(s0, M + "Tc", u32(1, 1)), Ev(s1, M + "Tc", u32(2, 2))]
        alpha = []
        for k, si in enumerate((s0, s1)):
            pay = (lambda t: u32(t, 0)) if M == "V" else (lambda t: u32(t))
            for cpu in range(ncpu_of[k]):
                alpha.append(Ev(si, "OAs", i32(cpu)))
            alpha += [Ev(si, "OHp"), Ev(si, "OHr"), Ev(si, M + "Tx", pay(k + 1)), Ev(si, M + "Te", pay(k + 1)),
                      Ev(si, M + "Tp", pay(k + 1)), Ev(si, M + "Tr", pay(k + 1)), Ev(si, c["neutral"][0]), Ev(si, c["neutral"][1]),
                      Ev(si, M + "Pp"), Ev(si, M + "Pr"), Ev(si, M + "Pa")]
        h0, _ = pool.local.expand(prefix, [], echo=True)
        if not h0.get("ok"):
            raise InfraError("prefix refused: %r" % h0)
        disp0 = {}
        for (n, row, tm, ty, val) in pool.local.init_lines + h0["lines"]:
            disp0[(n, row, ty)] = val
        depth = (5 if tier == "quick" else (8 if tier == "deep" else 7)) - (1 if looms > 1 else 0)
        tag = "e2e-%s%s" % (model, "" if looms == 1 else "-2looms")
        seen = {h0["hash"]}
        ran0 = frozenset(r for r in cpurows if runners(disp0, r))
        frontier = [([], disp0, (frozenset(), ran0))]
        nprobe = nacc = nchk = 0
        outcomes = set()

        def check(disp, hist, ev, stale=(), ran=()):
            vals = [cpu_value(disp, r, c, stale) for r in cpurows]
            # "replaced by the idle state when the CPU is not progressing": a physical CPU that had a running thread and has
            # none now (by the thread timeline, independently of what cpu.prv says about it) contributes Resting
            for i, r in enumerate(cpurows):
                if r in ran and not runners(disp, r):
                    vals[i] = {101}
            rows = [disp.get((c["pv"], r, c["bd"]), 0) for r in range(1, ncpu + 1)]
            # rows must be non-decreasing and a sorted choice of one allowed value per CPU
            ok = False
            import itertools
            for pick in itertools.product(*vals):
                if sorted(pick) == rows:
                    ok = True
                    break
            cause = "rows"
            if not ok:
                # would the rows be explained if a CPU in a task body showed the body subsystem instead of its task type?
                alt = []
                for i, r in enumerate(cpurows):
                    v = set(vals[i])
                    if disp.get(("cpu", r, c["idle"]), 0) == 100 and disp.get(("cpu", r, c["ss"]), 0) == c["body"] and disp.get(("cpu", r, c["ty"]), 0):
                        v.add(c["body"])
                        v.add(0)
                    alt.append(v)
                if any(sorted(p) == rows for p in itertools.product(*alt)):
                    cause = "type-hidden-after-resume-in-body"
            if not ok:
                ctx.violation("%s -b: after %s the breakdown rows show %r but the CPU rows give per-CPU values %r" % (
                    model, short_hist(prefix + hist + ([ev] if ev else [])), rows, [sorted(v) for v in vals]),
                    {"engine": "E3 emu_server -b", "model": model, "spec": spec, "history": [e.line() for e in prefix + hist], "probe": ev.line() if ev else None,
                     "rows": rows, "cpu_values": [sorted(v) for v in vals]}, {"kind": "breakdown-rows", "cause": cause})
        check(disp0, [], None, (), ran0)
        for lvl in range(depth):
            res = pool.expand_many([(prefix + h, alpha) for (h, d, st) in frontier])
            nxt = []
            for (h, d, st), (hres, pres) in zip(frontier, res):
                if not hres.get("ok"):
                    raise InfraError("replay diverged")
                for ev, r in zip(alpha, pres):
                    nprobe += 1
                    outcomes.add((ev[2], r.status))
                    if r.crashed:
                        ctx.violation("%s -b: crash on %s after %s: %s" % (model, ev.short(), short_hist(h), r.msg),
                                      {"engine": "E3 emu_server -b", "model": model, "history": [e.line() for e in prefix + h], "probe": ev.line()}, {"kind": "crash"})
                        continue
                    if not r.ok:
                        continue
                    nacc += 1
                    d2 = dict(d)
                    for (n, row, tm, ty, val) in r.lines:
                        if n == c["pv"]:
                            # "updates only the rows needed": a breakdown row is written only when its value changes, and only rows 1..ncpu exist
                            if not (1 <= row <= ncpu):
                                ctx.violation("%s -b: after %s a record is written for row %d of the breakdown trace, which has %d rows" % (
                                    model, short_hist(prefix + h + [ev]), row, ncpu),
                                    {"engine": "E3 emu_server -b", "model": model, "spec": spec, "history": [e.line() for e in prefix + h], "probe": ev.line()},
                                    {"kind": "breakdown-row-range"})
                            elif ty == c["bd"] and d2.get((n, row, ty)) == val:
                                ctx.violation("%s -b: after %s breakdown row %d is written again with the value %d it already shows" % (
                                    model, short_hist(prefix + h + [ev]), row, val),
                                    {"engine": "E3 emu_server -b", "model": model, "spec": spec, "history": [e.line() for e in prefix + h], "probe": ev.line()},
                                    {"kind": "breakdown-unneeded-update"})
                        d2[(n, row, ty)] = val
                    # per CPU: did the task type change after the subsystem last did?
                    stale0, ran = st
                    ran2 = frozenset(set(ran) | set(rr for rr in cpurows if runners(d2, rr)))
                    st2 = set(stale0)
                    for rr in cpurows:
                        if d.get(("cpu", rr, c["ss"]), 0) != d2.get(("cpu", rr, c["ss"]), 0):
                            st2.discard(rr)
                        elif d.get(("cpu", rr, c["ty"]), 0) != d2.get(("cpu", rr, c["ty"]), 0):
                            st2.add(rr)
                    check(d2, h, ev, st2, ran2)
                    nchk += 1
                    if r.hash not in seen:
                        seen.add(r.hash)
                        nxt.append((h + [ev], d2, (frozenset(st2), ran2)))
                if ctx.too_many():
                    break
            frontier = nxt
            if ctx.too_many() or not frontier:
                break
            if ctx.out_of_time(0.8):
                ctx.cap("%s: deadline at depth %d" % (tag, lvl + 1))
                break
        if frontier:
            ctx.cap("%s: depth bound %d (all states up to it expanded)" % (tag, depth))
        ctx.add(states=len(seen), transitions=nprobe, evaluations=nprobe)
        ctx.part(tag, states=len(seen), probes=nprobe, accepted=nacc, row_checks=nchk, physical_cpus=ncpu, depth=depth, outcomes=len(outcomes))
        ctx.sample({"model": model, "history": short_hist(prefix + [alpha[0], alpha[len(alpha) // 2]])})
    finally:
        pool.close()


def run(prop, tier):
    ctx = Ctx("C20", tier, "model_checking")
    tier = plan_of("C20", tier)
    ctx.cov["plan"] = tier
    scratch = Scratch("C20")
    try:
        build = Build()
        sexe = build.harness("san", "sort_check", ["sort_check.c"])
        runs = [["replace", "5" if tier == "quick" else "7", "3"], ["module", "2", "3", "2"], ["module", "3", "3", "3"],
                ["module", "4", "2" if tier == "quick" else "3", "2" if tier == "quick" else "3"]]
        if tier != "quick":
            runs.append(["module", "5", "2", "2"])

        def one(a):
            r = subprocess.run([sexe] + a, stdout=subprocess.PIPE, stderr=subprocess.PIPE, env=dict(os.environ, ASAN_OPTIONS="detect_leaks=0"))
            return r.returncode, r.stdout.decode(), r.stderr.decode()[-300:]
        for a, (rc, out, err) in zip(runs, pmap(one, runs)):
            n = 0
            for l in out.split("\n"):
                if l.startswith("cases="):
                    n = int(l.split("=")[1])
                if l.startswith("FAIL"):
                    ctx.violation("sort %s: %s" % (a, l), {"engine": "E4 sort_check", "args": a, "line": l}, {"kind": "sort-" + a[0]})
            if rc not in (0, 1) or (rc == 1 and "FAIL" not in out):
                ctx.violation("sort_check %s died (exit %d): %s" % (a, rc, err), {"engine": "E4 sort_check", "args": a}, {"kind": "sort-crash"})
            ctx.add(evaluations=n, transitions=n, states=n)
            ctx.part("sort-%s-%s" % (a[0], "-".join(a[1:])), cases=n)
        exe = build.harness("plain", "emu_server", ["emu_server.c"])
        cat = catalog.load_events()
        for model in ("nosv", "nanos6"):
            if ctx.out_of_time(0.8):
                ctx.cap("e2e %s not started" % model)
                continue
            e2e(ctx, build, scratch, exe, cat, model, tier)
        for model in ("nanos6", "nosv"):
            if ctx.out_of_time(0.8):
                ctx.cap("e2e %s (two looms) not started" % model)
                continue
            e2e(ctx, build, scratch, exe, cat, model, tier, looms=2)
        ctx.cov["rule"] = ("sort_replace on every sorted array of length <= 5/7 over {0..3} x every (old in array, new in -1..4); sort module with a real bay: "
                           "every input vector of n=2..4(5) inputs over {null,1,2,3} x every set of 1..k simultaneous input changes, outputs = sorted inputs and "
                           "unchanged outputs not rewritten; end to end with -b on 3 physical CPUs (one loom, and two looms with 2+1 CPUs): breadth-first search over implementation states (depth 5/7, two looms 4/6), rows compared after every accepted event and every emitted breakdown record must change its row, "
                           "alphabet = affinity, pause/resume, task execute/end/pause/resume of two task types, one subsystem enter/leave, progress states")
        ctx.cov["distinct_nontrivial"] = ctx.cov["states"]
        ctx.assumptions += ["per-CPU reference values are derived from the displayed cpu.prv rows with the rule of the property statement; "
                            "a paused task with the body region still open shows the subsystem; it may show nothing only if the task went away after the subsystem last changed"]
        from checks import soak
        if not ctx.out_of_time(0.9):
            soak.run_for(ctx, build, scratch, "C20", tier)
        return ctx.finish()
    finally:
        scratch.cleanup()
