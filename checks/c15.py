"""C15: the hierarchy and all row assignments depend only on the union of the
streams' metadata (not on which thread carries an attribute nor on enumeration
order); contradictory metadata is refused with an error message."""
import os, itertools, json, shutil, copy
from lib.common import Ctx, Build, Scratch, InfraError, pmap
from lib import emusrv, obs, pv
from lib.emusrv import i32, i64
from checks.c13 import expected_rows


class Named(list):
    """a rank configuration with its own loom names"""
    names = ("zeta", "alpha")


def system(ranks):
    """ranks: per loom None or list of ranks for its processes"""
    spec = []
    for li, lname in enumerate(getattr(ranks, "names", ("zeta", "alpha"))):
        procs = []
        for pi in range(2):
            pid = 100 * (li + 1) + 10 * pi
            rk = ranks[li][pi] if ranks[li] is not None else None
            procs.append({"pid": pid, "app": 1 + pi, "rank": rk, "nranks": 4 if rk is not None else None,
                          "threads": [pid + 2, pid + 1]})
        spec.append({"name": lname, "cpus": [(0, 7 - 2 * li), (1, 3 - li)], "procs": procs})
    return spec


def streams_of(spec):
    out = []
    for l in spec:
        for p in l["procs"]:
            for t in p["threads"]:
                out.append((l, p, t))
    return out


def build_files(spec, carriers, cpu_lists, order=None, only_cpu0=False):
    """carriers: {(loom,pid): {"app": set(tids), "rank": set(tids)}} ; cpu_lists: {(loom, tid): [(idx,phy)...] or None}
    Returns ordered list of (relpath, meta, events bytes)."""
    out = []
    for (l, p, t) in streams_of(spec):
        c = carriers[(l["name"], p["pid"])]
        m = obs.stream_meta(t, p["pid"], l["name"], app_id=(p["app"] if t in c["app"] else None),
                            cpus=cpu_lists.get((l["name"], t)),
                            rank=(p["rank"] if (p["rank"] is not None and t in c["rank"]) else None),
                            nranks=(p["nranks"] if (p["rank"] is not None and t in c["rank"]) else None))
        k = l["procs"].index(p) * 2 + p["threads"].index(t)
        cpu = -1 if k >= len(l["cpus"]) else k
        if only_cpu0 and k > 0:
            cpu = -1
        # (no two streams share a clock value: events of different streams with equal clocks may be replayed in either order)
        kk = k + 10 * spec.index(l)
        ev = obs.enc("OHx", 1000 + kk, i32(cpu, t) + i64(0)) + obs.enc("OHe", 2000 + kk)
        out.append((obs.relpath(l["name"], p["pid"], t), m, obs.HDR + ev))
    if order is not None:
        out = [out[i] for i in order]
    return out


def write(td, files):
    if os.path.exists(td):
        shutil.rmtree(td)
    os.makedirs(td)
    for rel, m, data in files:
        obs.write_stream(td, rel, m, data)


def canon(spec):
    carriers = {(l["name"], p["pid"]): {"app": set(p["threads"]), "rank": set(p["threads"])} for l in spec for p in l["procs"]}
    cpu_lists = {}
    for l in spec:
        t0 = l["procs"][0]["threads"][0]
        cpu_lists[(l["name"], t0)] = list(l["cpus"])
    return carriers, cpu_lists


def nonempty_subsets(xs):
    return [set(c) for k in range(1, len(xs) + 1) for c in itertools.combinations(xs, k)]


def run(prop, tier):
    ctx = Ctx("C15", tier, "model_checking")
    scratch = Scratch("C15")
    try:
        build = Build()
        emu = build.tool("san", "ovniemu")
        base = scratch.sub("t")
        # [[2, 0], [1, 3]]: the looms' rank ranges interleave and the first-enumerated process of a loom does not hold its minimum
        rank_cfgs = [[None, None], [[1, 0], [3, 2]], [[0, 1], None], [[2, 0], [1, 3]]] if tier == "quick" else \
                    [[None, None], [[0, 1], None], [None, [0, 1]]] + [[list(p[:2]), list(p[2:])] for p in itertools.permutations(range(4))]
        # loom names of which one is the beginning of the other (node1 / node10 / node100), in both orders
        for nm, rk in ((("node1", "node10"), [None, None]), (("node10", "node1"), [[1, 0], [3, 2]]), (("n.1", "n.10"), [[2, 3], [0, 1]])):
            cfg = Named(rk)
            cfg.names = nm
            rank_cfgs.append(cfg)
        variants = []      # (cfg index, label, files)
        for ci, ranks in enumerate(rank_cfgs):
            spec = system(ranks)
            carriers0, cpus0 = canon(spec)
            variants.append((ci, "canonical", build_files(spec, carriers0, cpus0)))
            # --- distribution of per-process attributes (one loom at a time, product over its processes)
            for l in (spec if tier != "quick" else spec[:1]):
                per_proc = []
                for p in l["procs"]:
                    subs = nonempty_subsets(p["threads"])
                    per_proc.append([(a, r) for a in subs for r in (subs if p["rank"] is not None else [set(p["threads"])])])
                for combo in itertools.product(*per_proc):
                    c2 = copy.deepcopy(carriers0)
                    for p, (a, r) in zip(l["procs"], combo):
                        c2[(l["name"], p["pid"])] = {"app": a, "rank": r}
                    variants.append((ci, "attr:%s:%s" % (l["name"], [(sorted(a), sorted(r)) for a, r in combo]), build_files(spec, c2, cpus0)))
            # --- distribution of the loom's CPU list over its threads, every array order
            for l in (spec if tier != "quick" else spec[1:]):
                tids = [t for p in l["procs"] for t in p["threads"]]
                a, b = l["cpus"]
                choices = [None, [a], [b], [a, b], [b, a]]
                for combo in itertools.product(choices, repeat=len(tids)):
                    got = set(c for lst in combo if lst for c in lst)
                    if got != {a, b}:
                        continue
                    if tier == "quick" and sum(1 for x in combo if x) > 2:
                        continue
                    cl = dict(cpus0)
                    for k in [k for k in cl if k[0] == l["name"]]:
                        del cl[k]
                    for t, lst in zip(tids, combo):
                        if lst:
                            cl[(l["name"], t)] = lst
                    variants.append((ci, "cpus:%s:%s" % (l["name"], combo), build_files(spec, carriers0, cl)))
            # --- stream enumeration (directory creation) order
            n = len(streams_of(spec))
            perms = [list(range(n))[::-1], [4, 5, 6, 7, 0, 1, 2, 3], [1, 0, 3, 2, 5, 4, 7, 6]]
            perms += [list(p) + [4, 5, 6, 7] for p in itertools.permutations(range(4))] if tier != "quick" else \
                     [[2, 0, 3, 1, 6, 4, 7, 5], [3, 2, 1, 0, 4, 5, 6, 7]]
            for pm in perms:
                variants.append((ci, "order:%s" % pm, build_files(spec, carriers0, cpus0, order=pm)))
                # enumeration order combined with a non-canonical distribution
                c2 = copy.deepcopy(carriers0)
                for l in spec:
                    for p in l["procs"]:
                        c2[(l["name"], p["pid"])] = {"app": {p["threads"][1]}, "rank": {p["threads"][1]}}
                cl = {}
                for l in spec:
                    cl[(l["name"], l["procs"][1]["threads"][1])] = [l["cpus"][1]]
                    cl[(l["name"], l["procs"][0]["threads"][1])] = [l["cpus"][0]]
                variants.append((ci, "order+dist:%s" % pm, build_files(spec, c2, cl, order=pm)))
                # the emulator visits the streams in the order of their paths: to really permute the enumeration, the stream
                # directories get names that say nothing (loom, process and thread are what the metadata says), flat or nested
                for kind in ("flat", "deep"):
                    f0 = build_files(spec, carriers0, cpus0) if kind == "flat" else build_files(spec, c2, cl)
                    f1 = []
                    for pos, k in enumerate(pm):
                        rel, m, d = f0[k]
                        f1.append((("s%02d" % pos) if kind == "flat" else ("part%d/x/s%02d" % (pos % 2, pos)), m, d))
                    variants.append((ci, "layout-%s:%s" % (kind, pm), f1))

        def one(v):
            ci, label, files = v
            td = os.path.join(base, "w%d" % os.getpid())
            write(td, files)
            rc, out, err = emusrv.run_tool(emu, [td])
            blob = {}
            for n in ("thread.row", "cpu.row", "thread.prv", "cpu.prv"):
                p = os.path.join(td, n)
                blob[n] = open(p).read() if os.path.exists(p) else None
            e = [l for l in err.split("\n") if "ERROR" in l][:2]
            san = "AddressSanitizer" in err or "runtime error" in err
            return rc, blob, " | ".join(e), san
        res = pmap(one, variants)
        ref = {}
        for (ci, label, files), (rc, blob, emsg, san) in zip(variants, res):
            ctx.add(evaluations=1, transitions=1, traces_validated_against_impl=1)
            spec = system(rank_cfgs[ci])
            rep = {"engine": "E6 real ovniemu", "rank_config": rank_cfgs[ci], "variant": label,
                   "streams": [(r, m) for (r, m, d) in files]}
            if rc != 0 or san:
                ctx.violation("config %d variant %s: consistent metadata refused or crashed (exit %r): %s" % (ci, label, rc, emsg), rep,
                              {"kind": "valid-refused"})
                continue
            if label == "canonical":
                ref[ci] = blob
                th, cp = expected_rows(spec)
                try:
                    rows_t = pv.parse_row(blob["thread.row"])
                    rows_c = pv.parse_row(blob["cpu.row"])
                except pv.PvError as e:
                    ctx.violation("config %d: row file malformed: %s" % (ci, e), rep, {"kind": "row-malformed"})
                    continue
                if rows_t != th or rows_c != cp:
                    ctx.violation("config %d: rows %r / %r differ from the documented ordering %r / %r" % (ci, rows_t, rows_c, th, cp), rep,
                                  {"kind": "row-order"})
                continue
            for n, txt in blob.items():
                if txt != ref[ci][n]:
                    ctx.violation("config %d variant %s: %s differs from the canonical distribution of the same metadata" % (ci, label, n), rep,
                                  {"kind": "distribution-dependent", "file": n})
                    break
        ctx.add(states=len(variants))
        ctx.part("metamorphic", variants=len(variants), rank_configs=rank_cfgs)

        # ---- contradictions: each must give exit 1 with an error message (no signal, no success)
        conf = []
        controls = []
        spec = system([[1, 0], [3, 2]])
        carriers0, cpus0 = canon(spec)
        allst = streams_of(spec)
        for si, (l, p, t) in enumerate(allst):
            def mod(fn, label):
                files = build_files(spec, carriers0, cpus0)
                rel, m, d = files[si]
                m = copy.deepcopy(m)
                fn(m)
                files[si] = (rel, m, d)
                for order in (None, list(range(len(files)))[::-1]):
                    f2 = files if order is None else [files[i] for i in order]
                    conf.append(("%s@%s%s" % (label, rel, "" if order is None else ":rev"), f2))
            mod(lambda m: m["ovni"].__setitem__("app_id", 77), "app_id-differs")
            # app ids that differ from the others of the process in ways a narrowed or defaulted comparison misses: by a multiple of
            # 2^32 (equal in the low half), zero, and a value that is not a number
            mod(lambda m, v=p["app"]: m["ovni"].__setitem__("app_id", v + 2 ** 32), "app_id-differs-by-2^32")
            mod(lambda m: m["ovni"].__setitem__("app_id", 0), "app_id-zero-in-one-thread")
            mod(lambda m, v=p["app"]: m["ovni"].__setitem__("app_id", str(v + 1)), "app_id-not-a-number")
            if p["rank"] is not None:
                mod(lambda m, v=p["rank"]: m["ovni"].__setitem__("rank", v + 2 ** 32), "rank-differs-by-2^32")
            for r in (0, 1, 2, 3, 9):
                if r != p["rank"]:
                    mod(lambda m, r=r: m["ovni"].__setitem__("rank", r), "rank-differs-%d" % r)
            mod(lambda m: m["ovni"].__setitem__("nranks", 5), "nranks-differs")
            a, b = l["cpus"]
            mod(lambda m: m["ovni"].__setitem__("loom_cpus", [{"index": a[0], "phyid": 60}]), "index-two-phyids")
            mod(lambda m: m["ovni"].__setitem__("loom_cpus", [{"index": 5, "phyid": a[1]}]), "phyid-two-indices")
            other = [x for x in p["threads"] if x != t][0]
            mod(lambda m: m["ovni"].__setitem__("tid", other), "duplicate-tid")
        # no CPUs in a loom / no app id in a process
        for l in spec:
            cl = {k: v for k, v in cpus0.items() if k[0] != l["name"]}
            conf.append(("no-cpus@%s" % l["name"], build_files(spec, carriers0, cl)))
            for p in l["procs"]:
                c2 = copy.deepcopy(carriers0)
                c2[(l["name"], p["pid"])]["app"] = set()
                conf.append(("no-app_id@%s.%d" % (l["name"], p["pid"]), build_files(spec, c2, cpus0)))
        # missing CPUs: the indices of a loom's CPUs leave a hole (n CPUs, index set != 0..n-1); every thread runs on index 0 or nowhere
        for n in (2, 3, 4):
            for S in itertools.combinations(range(n + 2), n):
                if S == tuple(range(n)) or 0 not in S:
                    continue
                lst = [(ix, 20 + ix) for ix in S]
                l = spec[1]
                tids = [t for p in l["procs"] for t in p["threads"]]
                for split in (None, 1, n - 1):
                    cl = {k: v for k, v in cpus0.items() if k[0] != l["name"]}
                    if split is None:
                        cl[(l["name"], tids[0])] = lst
                    else:
                        cl[(l["name"], tids[0])] = lst[:split]
                        cl[(l["name"], tids[-1])] = lst[split:][::-1]
                    files = build_files(spec, carriers0, cl, only_cpu0=True)
                    conf.append(("cpu-index-hole-%s-split%s@%s" % ("".join(map(str, S)), split, l["name"]), files))
                    conf.append(("cpu-index-hole-%s-split%s@%s:rev" % ("".join(map(str, S)), split, l["name"]), files[::-1]))
        # control for the family above: the same shape without a hole must be accepted
        for n in (2, 3, 4):
            l = spec[1]
            tids = [t for p in l["procs"] for t in p["threads"]]
            cl = {k: v for k, v in cpus0.items() if k[0] != l["name"]}
            cl[(l["name"], tids[0])] = [(ix, 20 + ix) for ix in range(n)][:1]
            cl[(l["name"], tids[-1])] = [(ix, 20 + ix) for ix in range(n)][1:][::-1]
            controls.append(("cpu-index-full-%d" % n, build_files(spec, carriers0, cl, only_cpu0=True)))
        # ranks given to only some processes of a loom
        c2 = copy.deepcopy(carriers0)
        c2[("zeta", 100)]["rank"] = set()
        conf.append(("rank-missing-in-one-process", build_files(spec, c2, cpus0)))

        def one2(v):
            label, files = v
            td = os.path.join(base, "c%d" % os.getpid())
            write(td, files)
            rc, out, err = emusrv.run_tool(emu, [td])
            return rc, ("ERROR" in err), ("emulation finished ok" in err), err[-300:]
        for (label, files), (rc, haserr, ok, tail) in zip(conf, pmap(one2, conf)):
            ctx.add(evaluations=1, transitions=1)
            if rc != 1 or not haserr or ok:
                ctx.violation("contradiction %s: expected exit 1 with an error message, got exit %r%s%s: %s" % (
                    label, rc, "" if haserr else " without message", " and 'finished ok'" if ok else "", tail[-160:]),
                    {"engine": "E6 real ovniemu", "contradiction": label, "streams": [(r, m) for (r, m, d) in files]},
                    {"kind": "conflict-not-refused", "what": label.split("@")[0]})
        for (label, files), (rc, haserr, ok, tail) in zip(controls, pmap(one2, controls)):
            ctx.add(evaluations=1, transitions=1)
            if rc != 0 or not ok:
                ctx.violation("control %s: consistent metadata refused (exit %r): %s" % (label, rc, tail[-160:]),
                              {"engine": "E6 real ovniemu", "control": label, "streams": [(r, m) for (r, m, d) in files]},
                              {"kind": "valid-refused"})
        ctx.part("contradictions", cases=len(conf), controls=len(controls))
        ctx.sample({"variant": variants[5][1], "rank_config": rank_cfgs[variants[5][0]]})
        ctx.sample({"contradiction": conf[3][0]})
        ctx.cov["rule"] = ("2 looms x 2 processes x 2 threads x 2 CPUs, 4/27 rank configurations (thorough: every assignment of the ranks 0-3; incl. ranked and unranked looms mixed, rank order opposite "
                           "to name order): every distribution of app_id and rank over the non-empty thread subsets of each process, every covering family "
                           "of CPU sub-lists in every array order, stream creation orders; outputs must be byte-identical to the canonical distribution and "
                           "rows equal the documented ordering. Every single contradiction at every stream "
                           "(incl. every CPU index set with a hole for 2-4 CPUs, carried by one or two threads), in both enumeration orders, must exit 1 with a message")
        ctx.cov["distinct_nontrivial"] = len(variants) + len(conf)
        return ctx.finish()
    finally:
        scratch.cleanup()
