"""C08: enter/leave events nest like a stack and map to their documented values,
for all eight models.  Explicit-state search over the real emulator: the state
is the set of open-region stacks of one thread, every documented argument-less
event of the model is probed in every state."""
import os, json
from lib.common import Ctx, Build, Scratch, InfraError, plan_of
from lib import emusrv, catalog, pv
from lib.emusrv import Ev, Fin, i32, i64
from lib.explore import ServerPool, Explorer, Ref, short_hist, binding_cases

# A.5 of DESIGN.md: thread state a model requires for its events
NEED = {"nosv": "active+incpu", "nanos6": "active", "mpi": "running", "tampi": "running",
        "nodes": "running", "openmp": "running", "kernel": "soft", "ovni": "soft"}
LINT_TYPES = {13, 20, 25, 30, 37, 50}   # "subsystem" / "function" timelines: lint must refuse open regions

SPEC = [{"name": "A", "cpus": [(0, 3)], "procs": [{"pid": 100, "threads": [101]}]}]
TID = 101
X = Ev(0, "OHx", i32(0, TID) + i64(0))
SPEC2 = [{"name": "A", "cpus": [(0, 3), (1, 5)], "procs": [{"pid": 100, "threads": [101]}, {"pid": 200, "threads": [201]}]}]
X2 = [Ev(0, "OHx", i32(0, 101) + i64(0)), Ev(1, "OHx", i32(1, 201) + i64(0))]


class NestRef(Ref):
    def __init__(self, model, cat, gold, depth, restrict_depth2=None):
        self.model = model
        self.spec = SPEC
        self.events = [e for e in cat[model]["events"] if not e.args and not e.jumbo]
        if model == "ovni":
            # thread life-cycle and affinity events belong to C04/C05; keep flush and the ignored regions
            self.events = [e for e in self.events if e.mcv[1] in "FU"]
        self.enter = {}
        self.leave = {}
        for k, v in gold["enter"].items():
            if k[0] == cat[model]["char"]:
                self.enter[k] = v
                self.leave[v["leave"]] = k
        self.depth = depth
        self.restrict = restrict_depth2
        self.types = sorted(set(v["type"] for v in self.enter.values()))
        self._alpha = None

    def init(self):
        return tuple((t, ()) for t in self.types)

    def alphabet(self, s):
        if self._alpha is None:
            self._alpha = [(e.mcv, Ev(0, e.mcv)) for e in self.events]
        return self._alpha

    def _total(self, s):
        return sum(len(st) for _, st in s)

    def step(self, s, mcv):
        d = dict(s)
        if mcv in self.enter:
            ty = self.enter[mcv]["type"]
            st = d[ty]
            s2 = None
            if self._may_expand(s, mcv):
                d2 = dict(d)
                d2[ty] = st + (mcv,)
                s2 = tuple(sorted(d2.items()))
            if st and st[-1] == mcv:
                return ("soft", s2, "immediate re-entry of the innermost region: either outcome allowed")
            if s2 is None:
                # legal, but beyond the explored depth: verdict still checked
                return ("ok*", None, "properly nested enter")
            return ("ok", s2, "properly nested enter")
        if mcv in self.leave:
            ent = self.leave[mcv]
            ty = self.enter[ent]["type"]
            st = d[ty]
            if st and st[-1] == ent:
                d2 = dict(d)
                d2[ty] = st[:-1]
                return ("ok", tuple(sorted(d2.items())), "matches the innermost open region")
            return ("fail", None, "leave does not match the innermost open region %r" % (st[-1] if st else None))
        return ("soft", s, "listed event without a timeline")

    def _may_expand(self, s, mcv):
        n = self._total(s)
        if n >= self.depth:
            return False
        if self.restrict is None or n == 0:
            return True
        # quick tier: the second level only among the enter events of one category letter
        return mcv[1] == self.restrict and all(e[1] == self.restrict for _, st in s for e in st)

    def display(self, s):
        d = {}
        for ty, st in s:
            v = self.enter[st[-1]]["value"] if st else 0
            d[("thread", 1, ty)] = v
            d[("cpu", 1, ty)] = v
        return d


class NestRef2(Ref):
    """Two threads, each with its own open-region stacks (depth <= 1 each): what one thread opens or closes must not
    matter to the other.  Thread 1 only uses a few regions to keep the product small."""

    def __init__(self, base, few, limit0=None):
        self.base = base
        self.spec = SPEC2
        base.depth = 1
        base.restrict = None
        ents0 = sorted(base.enter)
        if limit0:
            ents0 = ents0[:limit0]
        self.use = [set(ents0) | set(base.enter[e]["leave"] for e in ents0), set(few) | set(base.enter[e]["leave"] for e in few)]
        self._alpha = None

    def init(self):
        return (self.base.init(), self.base.init())

    def alphabet(self, s):
        if self._alpha is None:
            self._alpha = [((k, e.mcv), Ev(k, e.mcv)) for k in (0, 1) for e in self.base.events if e.mcv in self.use[k]]
        return self._alpha

    def step(self, s, label):
        k, mcv = label
        e, s2, why = self.base.step(s[k], mcv)
        if e == "ok*":
            e = "ok"
        if s2 is None:
            return (e, None, why)
        return (e, (s2, s[1]) if k == 0 else (s[0], s2), "thread %d: %s" % (k, why))

    def display(self, s):
        d = {}
        for k in (0, 1):
            for (n, row, ty), v in self.base.display(s[k]).items():
                d[(n, k + 1, ty)] = v
        return d


class PrefixRefused(Exception):
    """The emulator refused the (legal) common prefix of a walk: that is its behaviour on a legal history, so the
    checks report it as a violation of their property, not as an infrastructure error."""

    def __init__(self, prefix, hres):
        Exception.__init__(self, "legal prefix refused: %s" % hres.get("msg"))
        self.prefix, self.hres = prefix, hres


def report_prefix(ctx, e, what, flags=None, spec=None):
    ctx.violation("%s: the emulator refuses the legal common prefix %s at event %s: %s" % (
        what, short_hist(e.prefix), e.hres.get("fail_index"), e.hres.get("msg")),
        {"engine": "E3", "flags": flags, "spec": spec, "history": [x.line() for x in e.prefix]}, {"kind": "prefix-refused", "walk": what})


class PrefixPool:
    """Wraps a ServerPool so that every history is prefixed (thread made running first)."""

    def __init__(self, pool, prefix):
        self.pool, self.prefix = pool, prefix
        self.local = self
        self.flags = pool.flags
        self.init_lines = []
        self.tracedir = pool.tracedir
        self.streams = pool.local.streams
        h, _ = pool.local.expand(prefix, [], echo=True)
        if not h.get("ok"):
            if h.get("crash"):
                raise InfraError("prefix crashed the server: %r" % (h,))
            raise PrefixRefused(prefix, h)
        self.init_lines = pool.local.init_lines + h["lines"]

    def expand(self, hist, probes, echo=False):
        return self.pool.local.expand(self.prefix + hist, probes, echo)

    def expand_many(self, tasks, echo=False):
        return self.pool.expand_many([(self.prefix + h, p) for (h, p) in tasks], echo)


class ExplorerP(Explorer):
    """Explorer variant understanding the 'ok*' expectation (legal, not expanded)."""
    pass


def nest_walk(ctx, pool, ref, name):
    try:
        pp = PrefixPool(pool, [X])
    except PrefixRefused as e:
        report_prefix(ctx, e, name, pool.flags, SPEC)
        return None
    ex = Explorer(ctx, pp, ref, name=name, report_props={"C08"}, check_time=False)
    # teach the explorer 'ok*': wrap step
    orig = ref.step

    def step(s, label):
        e, s2, why = orig(s, label)
        if e == "ok*":
            return ("ok", None, why)
        return (e, s2, why)
    ref.step = step
    st = ex.run()
    ref.step = orig
    return ex


def run(prop, tier):
    ctx = Ctx("C08", tier, "model_checking")
    tier = plan_of("C08", tier)
    ctx.cov["plan"] = tier
    scratch = Scratch("C08")
    try:
        build = Build()
        exe = build.harness("plain", "emu_server", ["emu_server.c"])
        cat = catalog.load_events()
        gold = catalog.golden("enter_values.json")
        models = ["nosv", "nanos6", "nodes", "mpi", "tampi", "openmp", "kernel", "ovni"]
        nlabels = 0
        for model in models:
            if ctx.out_of_time(0.85):
                ctx.cap("model %s not started (deadline)" % model)
                continue
            req = {"ovni": cat["ovni"]["version"], model: cat[model]["version"], "kernel": cat["kernel"]["version"]}
            system = emusrv.System(SPEC, require=req)
            td = system.write(scratch.sub("trace-" + model))
            pool = ServerPool(exe, td, ["-l"])
            pool.meta = system.meta if "system" in dir() else None
            try:
                depth = 3 if tier == "deep" else 2
                restrict = None
                if tier == "quick":
                    # depth 2 only within the category of the first enter event
                    ents = sorted(k for k in gold["enter"] if k[0] == cat[model]["char"])
                    restrict = ents[0][1] if ents else None
                ref = NestRef(model, cat, gold, depth, restrict)
                if not ref.enter:
                    continue
                ex = nest_walk(ctx, pool, ref, "nest-" + model)

                # ---- documented value and label of every enter event (from a finished trace's .pcf)
                _, res = pool.local.expand([X, Ev(0, "OHe")], [Fin(1)])
                if res[0].ok and res[0].files:
                    for nm in ("thread", "cpu"):
                        pcf = pv.parse_pcf(res[0].files[nm + ".pcf"])
                        for mcv, g in ref.enter.items():
                            nlabels += 1
                            lab = pcf.get(g["type"], (None, {}))[1].get(g["value"])
                            if lab != g["label"]:
                                ctx.violation("%s.pcf: value %d of type %d (event %s, '%s') is labelled %r, documented %r" % (
                                    nm, g["value"], g["type"], mcv, g["desc"], lab, g["label"]),
                                    {"engine": "E3", "check": "pcf-label", "model": model, "mcv": mcv, "trace": nm},
                                    {"kind": "pcf-label", "mcv": mcv})
                else:
                    ctx.violation("model %s: plain execute/end trace refused: %s" % (model, res[0].msg),
                                  {"engine": "E3", "check": "baseline", "model": model}, {"kind": "baseline"})

                # ---- thread-state precondition (A.5)
                some = sorted(ref.enter)[0]
                states = {"unknown": [], "running": [X], "cooling": [X, Ev(0, "OHc")], "paused": [X, Ev(0, "OHp")],
                          "warming": [X, Ev(0, "OHp"), Ev(0, "OHw")], "dead": [X, Ev(0, "OHe")]}
                tasks, meta = [], []
                for sname, h in states.items():
                    for ooc in (0, 1):
                        hh = h + ([Ev(0, "KCO")] if ooc else [])
                        tasks.append((hh, [Ev(0, some)]))
                        meta.append((sname, ooc, hh))
                for (sname, ooc, hh), (hres, pres) in zip(meta, pool.expand_many(tasks)):
                    ctx.add(evaluations=1, transitions=1)
                    if not hres.get("ok"):
                        continue   # this combination is not reachable (e.g. KCO refused)
                    need = NEED[model]
                    r = pres[0]
                    if r.crashed:
                        ctx.violation("crash probing %s in thread state %s ooc=%d: %s" % (some, sname, ooc, r.msg),
                                      {"engine": "E3", "history": [e.line() for e in hh], "probe": some}, {"kind": "crash"})
                        continue
                    if need == "soft":
                        continue
                    active = sname in ("running", "cooling", "warming")
                    want = {"active": active, "active+incpu": active and not ooc, "running": sname == "running"}[need]
                    if want != r.ok:
                        ctx.violation("model %s: event %s in thread state %s%s: expected %s, emulator %s (%s)" % (
                            model, some, sname, " out of CPU" if ooc else "", "accepted" if want else "refused", r.status, r.msg),
                            {"engine": "E3", "flags": pool.flags, "spec": SPEC, "require": req,
                             "history": [e.line() for e in hh], "probe": Ev(0, some).line()},
                            {"kind": "state-precondition", "model": model, "state": sname, "ooc": ooc})
                ctx.part("precond-" + model, probes=len(tasks), representative=some, requirement=NEED[model])
                if model == "nosv":
                    # the same requirement for the events that carry arguments (task types, tasks): refused while the thread is
                    # out of the CPU, accepted otherwise (the same history without the context switch)
                    from lib.emusrv import u32
                    setup = [X, Ev(0, "VYc", b"", 1, u32(7) + b"ty\0"), Ev(0, "VTc", u32(1, 7))]
                    probes = [("VTx", Ev(0, "VTx", u32(1, 0))), ("VTc", Ev(0, "VTc", u32(2, 7))), ("VYc", Ev(0, "VYc", b"", 1, u32(8) + b"tz\0")),
                              ("VTx;VTp", None), ("VTx;VTe", None)]
                    for ooc in (0, 1):
                        hh = setup + ([Ev(0, "KCO")] if ooc else [])
                        hres, pres = pool.local.expand(hh, [p for (_, p) in probes if p is not None])
                        ctx.add(evaluations=3, transitions=3)
                        if not hres.get("ok"):
                            continue
                        for (nm, p), r in zip([x for x in probes if x[1] is not None], pres):
                            if r.ok != (not ooc) and not r.crashed:
                                ctx.violation("model nosv: event %s %s: expected %s, emulator %s (%s)" % (
                                    nm, "while the thread is out of CPU" if ooc else "in the CPU", "refused" if ooc else "accepted", r.status, r.msg),
                                    {"engine": "E3", "flags": pool.flags, "spec": SPEC, "require": req, "history": [e.line() for e in hh], "probe": p.line()},
                                    {"kind": "state-precondition", "model": model, "state": "running", "ooc": ooc, "event": nm})
                    # a running task: pause / end while out of the CPU
                    run = setup + [Ev(0, "VTx", u32(1, 0)), Ev(0, "KCO")]
                    hres, pres = pool.local.expand(run, [Ev(0, "VTp", u32(1, 0)), Ev(0, "VTe", u32(1, 0))])
                    ctx.add(evaluations=2, transitions=2)
                    if hres.get("ok"):
                        for nm, r in zip(("VTp", "VTe"), pres):
                            if r.ok:
                                ctx.violation("model nosv: event %s while the thread is out of CPU: expected refused, emulator ok" % nm,
                                              {"engine": "E3", "flags": pool.flags, "spec": SPEC, "require": req, "history": [e.line() for e in run], "probe": nm},
                                              {"kind": "state-precondition", "model": model, "state": "running", "ooc": 1, "event": nm})

                # ---- regions held open while the thread cools down, pauses, warms up and runs again: the thread row shows the
                # innermost open region exactly in the thread states its tracking mode names, the CPU row while the thread runs,
                # and the value is back unchanged after the round trip (one region, and two nested regions of the same timeline)
                from checks import c06 as _c06
                steps = [("running", None), ("cooling", "OHc"), ("paused", "OHp"), ("warming", "OHw"), ("running", "OHr")]
                ents = sorted((k, g) for k, g in ref.enter.items() if g["type"] in _c06.MODE)
                held = [[k] for k, _ in ents]
                for k, g in ents:
                    for k2, g2 in ents:
                        if k2 != k and g2["type"] == g["type"] and (tier == "deep" or k == ents[0][0] or k2 == ents[0][0]):
                            held.append([k, k2])
                nheld = 0
                for opens in held:
                    g = ref.enter[opens[-1]]
                    hist = [X] + [Ev(0, m) for m in opens]
                    for st, ev in steps:
                        if ev:
                            hist = hist + [Ev(0, ev)]
                        hres, _ = pool.local.expand(hist, [], echo=True)
                        nheld += 1
                        if not hres.get("ok"):
                            break       # this nesting (or the state change inside it) is refused: judged by the nest walk above
                        disp = {}
                        for (n, row, tm, ty, val) in pool.local.init_lines + hres["lines"]:
                            disp[(n, row, ty)] = val
                        want_t = g["value"] if _c06.mode_ok(_c06.MODE[g["type"]], st) else 0
                        want_c = g["value"] if st == "running" else 0
                        got_t, got_c = disp.get(("thread", 1, g["type"]), 0), disp.get(("cpu", 1, g["type"]), 0)
                        if got_t != want_t or got_c != want_c:
                            ctx.violation("model %s: region %s (%s) open, thread %s: thread row type %d shows %d (expected %d), CPU row shows %d (expected %d)" % (
                                model, " > ".join(opens), g["label"], st, g["type"], got_t, want_t, got_c, want_c),
                                {"engine": "E3", "flags": pool.flags, "spec": SPEC, "require": req, "history": [e.line() for e in hist]},
                                {"kind": "held-open", "model": model, "opens": opens, "state": st})
                            break
                ctx.add(evaluations=nheld, transitions=nheld)
                ctx.part("held-open-" + model, probes=nheld, stacks=len(held))

                # ---- lint: a trace ending with an open region must be refused with -l
                tasks, meta = [], []
                for mcv, g in sorted(ref.enter.items()):
                    tasks.append(([X, Ev(0, mcv), Ev(0, "OHe")], [Fin(1), Fin(0)]))
                    meta.append((mcv, g, True))
                    tasks.append(([X, Ev(0, mcv), Ev(0, g["leave"]), Ev(0, "OHe")], [Fin(1)]))
                    meta.append((mcv, g, False))
                for (mcv, g, open_), (hres, pres) in zip(meta, pool.expand_many(tasks)):
                    ctx.add(evaluations=len(pres), transitions=len(pres))
                    if not hres.get("ok"):
                        # ending the thread with the region open may itself be refused: that is also a rejection
                        continue
                    r = pres[0]
                    if open_ and r.ok and g["type"] in LINT_TYPES:
                        ctx.violation("lint mode accepted a trace ending inside %s (%s)" % (mcv, g["label"]),
                                      {"engine": "E3", "flags": pool.flags, "history": [X.line(), Ev(0, mcv).line(), "E 0 1 OHe -"], "probe": "F 1"},
                                      {"kind": "lint-open-region", "mcv": mcv})
                    if not open_ and not r.ok:
                        ctx.violation("lint mode refused a balanced trace %s..%s: %s" % (mcv, g["leave"], r.msg),
                                      {"engine": "E3", "flags": pool.flags, "history": [X.line(), Ev(0, mcv).line(), Ev(0, g["leave"]).line(), "E 0 1 OHe -"], "probe": "F 1"},
                                      {"kind": "lint-balanced", "mcv": mcv})
                ctx.part("lint-" + model, traces=len(tasks))

                # ---- the same lint verdicts with the other views switched on as well (-b needs the breakdown attribute)
                if model in ("nosv", "nanos6"):
                    systemb = emusrv.System(SPEC, require=req, extra_meta={"*": {"nosv": {"can_breakdown": True}, "nanos6": {"can_breakdown": True}}})
                    tdb = systemb.write(scratch.sub("traceb-" + model))
                    for fl in (["-l", "-b"], ["-b", "-l", "-a"]):
                        poolb = ServerPool(exe, tdb, fl)
                        try:
                            tasks, meta = [], []
                            for mcv, g in sorted(ref.enter.items()):
                                tasks.append(([X, Ev(0, mcv), Ev(0, "OHe")], [Fin(1)]))
                                meta.append((mcv, g, True))
                                tasks.append(([X, Ev(0, mcv), Ev(0, g["leave"]), Ev(0, "OHe")], [Fin(1)]))
                                meta.append((mcv, g, False))
                            for (mcv, g, open_), (hres, pres) in zip(meta, poolb.expand_many(tasks)):
                                ctx.add(evaluations=len(pres), transitions=len(pres))
                                if not hres.get("ok"):
                                    continue
                                r = pres[0]
                                if open_ and r.ok and g["type"] in LINT_TYPES:
                                    ctx.violation("ovniemu %s accepted a trace ending inside %s (%s)" % (" ".join(fl), mcv, g["label"]),
                                                  {"engine": "E3", "flags": fl, "history": [X.line(), Ev(0, mcv).line(), "E 0 1 OHe -"], "probe": "F 1"},
                                                  {"kind": "lint-open-region", "mcv": mcv})
                                if not open_ and not r.ok:
                                    ctx.violation("ovniemu %s refused a balanced trace %s..%s: %s" % (" ".join(fl), mcv, g["leave"], r.msg),
                                                  {"engine": "E3", "flags": fl, "history": [X.line(), Ev(0, mcv).line(), Ev(0, g["leave"]).line(), "E 0 1 OHe -"], "probe": "F 1"},
                                                  {"kind": "lint-balanced", "mcv": mcv})
                            ctx.part("lint-%s %s" % (model, " ".join(fl)), traces=len(tasks))
                        finally:
                            poolb.close()

                # ---- lint with two threads (two processes): the open region belongs to either thread, and either thread emits the last event
                system2 = emusrv.System(SPEC2, require=req)
                td2 = system2.write(scratch.sub("trace2-" + model))
                pool2 = ServerPool(exe, td2, ["-l"])
                try:
                    tasks, meta = [], []
                    for mcv, g in sorted(ref.enter.items()):
                        if g["type"] not in LINT_TYPES:
                            continue
                        for who in (0, 1):
                            oth = 1 - who
                            for first in (who, oth):
                                ends = [Ev(first, "OHe"), Ev(1 - first, "OHe")]
                                tasks.append((X2 + [Ev(who, mcv)] + ends, [Fin(1)]))
                                meta.append((mcv, g, who, first, True))
                                tasks.append((X2 + [Ev(who, mcv), Ev(oth, mcv), Ev(oth, g["leave"])] + ends, [Fin(1)]))
                                meta.append((mcv, g, who, first, True))
                                tasks.append((X2 + [Ev(who, mcv), Ev(oth, mcv), Ev(oth, g["leave"]), Ev(who, g["leave"])] + ends, [Fin(1)]))
                                meta.append((mcv, g, who, first, False))
                    for (mcv, g, who, first, open_), (hres, pres) in zip(meta, pool2.expand_many(tasks)):
                        ctx.add(evaluations=len(pres), transitions=len(pres))
                        if not hres.get("ok"):
                            if not open_:
                                ctx.violation("two threads: balanced history with %s on both threads refused: %s" % (mcv, hres.get("msg")),
                                              {"engine": "E3", "flags": pool2.flags, "spec": SPEC2, "mcv": mcv, "who": who, "first_end": first},
                                              {"kind": "lint2-balanced", "mcv": mcv})
                            continue
                        r = pres[0]
                        if open_ and r.ok:
                            ctx.violation("lint mode accepted a two-thread trace in which thread %d ends inside %s (%s); thread %d ends first" % (
                                who, mcv, g["label"], first),
                                {"engine": "E3", "flags": pool2.flags, "spec": SPEC2, "mcv": mcv, "who": who, "first_end": first},
                                {"kind": "lint-open-region-2threads", "mcv": mcv})
                        if not open_ and not r.ok:
                            ctx.violation("lint mode refused a balanced two-thread trace %s..%s: %s" % (mcv, g["leave"], r.msg),
                                          {"engine": "E3", "flags": pool2.flags, "spec": SPEC2, "mcv": mcv, "who": who, "first_end": first},
                                          {"kind": "lint2-balanced", "mcv": mcv})
                    ctx.part("lint2-" + model, traces=len(tasks))
                    # ---- nesting is per thread: product walk over two threads
                    ents = sorted(ref.enter)
                    ref2 = NestRef2(NestRef(model, cat, gold, 1, None), ents[:3], limit0=(8 if tier == "quick" else None))
                    try:
                        pp2 = PrefixPool(pool2, X2)
                        Explorer(ctx, pp2, ref2, name="nest2-" + model, report_props={"C08"}, check_time=False).run()
                    except PrefixRefused as e:
                        report_prefix(ctx, e, "nest2-" + model, pool2.flags, SPEC2)
                finally:
                    pool2.close()

                # ---- deep path: alternate two regions up to the stack limit
                ents = sorted(k for k, g in ref.enter.items())
                if len(ents) >= 2 and (tier != "quick" or model in ("nosv", "mpi")):
                    a, b = ents[0], ents[1]
                    if ref.enter[a]["type"] == ref.enter[b]["type"]:
                        h = [X] + [Ev(0, a if i % 2 == 0 else b) for i in range(512)]
                        hres, pres = pool.local.expand(h, [Ev(0, a), Ev(0, ref.enter[b]["leave"]), Ev(0, ref.enter[a]["leave"])])
                        ctx.add(evaluations=3, transitions=515)
                        if not hres.get("ok"):
                            ctx.violation("model %s: nesting of depth %d refused before the documented limit 512: %s" % (
                                model, hres.get("fail_index", -1), hres.get("msg")), {"engine": "E3", "check": "deep", "model": model, "a": a, "b": b},
                                {"kind": "deep-early"})
                        else:
                            if pres[0].ok:
                                ctx.violation("model %s: 513th nested region accepted (stack limit 512)" % model,
                                              {"engine": "E3", "check": "deep", "model": model, "a": a, "b": b}, {"kind": "deep-overflow"})
                            if not pres[1].ok:
                                ctx.violation("model %s: matching leave refused at depth 512: %s" % (model, pres[1].msg),
                                              {"engine": "E3", "check": "deep", "model": model}, {"kind": "deep-leave"})
                            if pres[2].ok:
                                ctx.violation("model %s: mismatched leave accepted at depth 512" % model,
                                              {"engine": "E3", "check": "deep", "model": model}, {"kind": "deep-mismatch"})
                        ctx.part("deep-" + model, depth=512, regions=[a, b])

                # ---- binding: every enter, enter+leave and enter+wrong-leave history through the real ovniemu
                cases = []
                for mcv, g in sorted(ref.enter.items()):
                    cases.append([X, Ev(0, mcv), Ev(0, g["leave"]), Ev(0, "OHe")])
                    if tier != "quick":
                        cases.append([X, Ev(0, mcv), Ev(0, "OHe")])
                        other = [k for k in ents if k != mcv]
                        if other:
                            cases.append([X, Ev(0, mcv), Ev(0, ref.enter[other[0]]["leave"]), Ev(0, "OHe")])
                if tier == "quick":
                    cases = cases[:12]
                if not ctx.nviol:
                    binding_cases(ctx, build, system, pool, cases, model)
                ctx.sample({"model": model, "enter_events": len(ref.enter), "example": short_hist([X, Ev(0, ents[0]), Ev(0, ref.enter[ents[0]]["leave"])])})
            finally:
                pool.close()
        ctx.part("labels", checked=nlabels)
        ctx.cov["rule"] = ("per model: every state = open-region stacks (depth <= 2; deep plan 3) of a running thread; in every state every documented "
                           "argument-less event of the model is probed (matching leave accepted, any other leave refused, enter accepted; "
                           "immediate re-entry either way) and the thread and CPU rows must show the golden value of the innermost region; "
                           "a product walk over two threads (depth <= 1 each) for per-thread independence; plus state preconditions, lint on open regions (one thread; two threads with the open region on either and either ending last), "
                           "one depth-512 path and .pcf labels")
        ctx.cov["distinct_nontrivial"] = ctx.cov["states"]
        ctx.assumptions += ["golden/enter_values.json (event -> type,value,label) frozen after manual review against the documented descriptions",
                            "events with arguments (tasks, types) are covered by C07/C18", "nesting depth <= 2 (deep plan: 3) plus one depth-512 path per model"]
        from checks import soak
        if not ctx.out_of_time(0.9):
            soak.run_for(ctx, build, scratch, "C08", tier)
        return ctx.finish()
    finally:
        scratch.cleanup()
