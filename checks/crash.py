"""C09 (crash consistency) and C10 (I/O faults are never silent): the traced
program harness/crash_driver.c (real libovni, small staging buffer) is run under
a ptrace tracer (harness/killat.c); for every file-system syscall of the runtime phase the process is killed
before the call executes (C09) or the call fails with an errno (C10); the trace
directory left behind is then examined and given to the real ovniemu."""
import os, re, json, shutil, subprocess, itertools
from lib.common import Ctx, Build, Scratch, InfraError, REPO, pmap, plan_of
from lib import emusrv, obs

SYSCALLS = ["mkdir", "openat", "write", "read", "close", "newfstatat", "getdents64", "unlink", "rmdir", "fdatasync"]
WRITES = ("write", "writev", "pwrite64", "pwritev", "pwritev2")
MUTATING = {"mkdir", "openat", "write", "unlink", "rmdir",
            # not used by the current runtime, traced so that a rewritten one is still covered
            "writev", "pwrite64", "pwritev", "pwritev2", "rename", "renameat", "renameat2", "unlinkat", "mkdirat", "open", "creat",
            "link", "linkat", "symlink", "symlinkat", "truncate", "ftruncate", "fallocate", "sendfile", "copy_file_range"}

SCEN = {
    # minimal life
    "h1": "A:pinit A:init A:x A:ev0 A:e A:f A:free A:pfini",
    # explicit and automatic flushes, stream > 8 KiB (several 4096-byte chunks in the relocation copy)
    "h2": "A:pinit A:init A:x A:j3000 A:j3000 A:f A:j2000 A:ev16 A:e A:f A:free A:pfini",
    # first life ends exactly at byte 4096 of the stream (event boundary = chunk boundary), then a second life
    "h3": "A:pinit A:init A:x A:j4032 A:e A:f A:x A:ev16 A:ev2 A:e A:f A:free A:pfini",
    # metadata flushed in the middle
    "h5": "A:pinit A:init A:x A:as A:af A:ev0 A:as A:e A:f A:free A:pfini",
    # two threads, interleaved / one after the other / B leading
    "h4a": "A:pinit A:init B:init A:x B:x A:ev8 B:j100 A:f B:e A:e B:f A:f A:free B:free A:pfini",
    "h4b": "A:pinit A:init A:x A:j3000 A:j3000 A:e A:f A:free B:init B:x B:ev4 B:e B:f B:free B:pfini",
    "h4c": "B:pinit B:init A:init B:x A:x B:j3000 B:j3000 A:ev8 B:e A:e B:f A:f B:free A:free B:pfini",
    # a thread id used again inside one run: C traces under A's tid after A has ended ("|" separates the earlier owner's life)
    "h7": "A:pinit A:init A:x A:ev16 A:e A:f A:free | C:init C:x C:j4032 C:e C:f C:x C:ev16 C:e C:f C:free A:pfini",
}
TIDS = {"A": 100, "B": 102, "C": 100, "D": 103}
# metadata larger than a stdio buffer (written in several chunks), relocated too
SCEN["h9"] = "A:pinit A:init A:abig A:x A:ev0 A:e A:f A:free A:pfini"
# the program changes its working directory; a second thread starts tracing afterwards
SCEN["h10"] = "A:pinit A:init A:x A:ev0 A:cd B:init B:x B:ev4 B:e B:f B:free A:e A:f A:free A:pfini"
# ... the same with the first thread over before the directory changes
SCEN["h11"] = "A:pinit A:init A:x A:ev0 A:e A:f A:free A:cd B:init B:x B:ev4 B:e B:f B:free A:pfini"
# three threads of one process, interleaved
SCEN["h8"] = "A:pinit A:init B:init D:init A:x B:x D:x D:j3000 A:ev8 B:j100 D:j2000 A:f B:e D:e A:e D:f B:f A:f D:free A:free B:free A:pfini"


def interleavings(max_switches):
    """every merge of the two thread scripts below with at most `max_switches` changes of the running thread (A starts the
    process and ends it).  The scripts flush automatically (4096-byte staging buffer) and explicitly."""
    A = ["init", "x", "j3000", "j2000", "e", "f", "free"]
    B = ["init", "x", "ev4", "j100", "e", "f", "free"]
    out = {}

    def rec(ia, ib, cur, sw, acc):
        if ia == len(A) and ib == len(B):
            out["g%d" % len(out)] = " ".join(["A:pinit"] + acc + ["A:pfini"])
            return
        for who in ("A", "B"):
            if who == "A" and ia == len(A) or who == "B" and ib == len(B):
                continue
            nsw = sw + (1 if cur is not None and cur != who else 0)
            if nsw > max_switches:
                continue
            if who == "A":
                rec(ia + 1, ib, who, nsw, acc + ["A:" + A[ia]])
            else:
                rec(ia, ib + 1, who, nsw, acc + ["B:" + B[ib]])
    rec(0, 0, None, 0, [])
    return out

LINE = re.compile(r"^(\d+)\s+(\w+)\((.*)\)\s+= (-?\d+|\?)(.*)$")


def parse_log(path):
    out = []
    try:
        for l in open(path, errors="replace"):
            m = LINE.match(l.rstrip("\n"))
            if m:
                out.append((int(m.group(1)), m.group(2), m.group(3), m.group(4), m.group(5)))
            elif "+++ killed" in l or "+++ exited" in l:
                out.append((0, "+++", l.strip(), "", ""))
    except OSError:
        pass
    return out


def runtime_phase(log):
    for i, e in enumerate(log):
        if e[1] == "write" and "VERIF-START" in e[2]:
            return i + 1
    return None


def flushed_bytes(log, tracked_prefix):
    """bytes passed to completed write()s on each runtime stream (the stream.obs opened for writing below
    tracked_prefix: the trace directory in direct mode, OVNI_TMPDIR otherwise)"""
    fds = {}
    out = {}
    for (pid, sc, args, ret, tail) in log:
        if sc in ("openat", "open", "creat") and "stream.obs" in args and "O_WRONLY|O_CREAT" in args and ret not in ("?", "-1"):
            m = re.search(r'thread\.(\d+)/stream\.obs', args)
            if m and tracked_prefix in args:
                fds[int(ret)] = int(m.group(1))
                out[int(m.group(1))] = 0        # a new stream of this thread id starts (also when the id is used again)
        elif sc in WRITES and ret not in ("?",) and int(ret) > 0:
            fd = int(args.split(",")[0])
            if fd in fds:
                out[fds[fd]] += int(ret)
        elif sc == "close" and ret == "0":
            fd = int(args.split(",")[0]) if args.split(",")[0].strip().isdigit() else None
            fds.pop(fd, None)
    return out


class Runner:
    def __init__(self, build, scratch):
        self.exe = build.harness("plain", "crash_driver", ["crash_driver.c"],
                                 extra=['-DVERIF_OVNI_C="%s"' % os.path.join(REPO, "src/rt/ovni.c"), "-DVERIF_BUFSZ=4096"],
                                 link_extra=["-ldl"])
        self.killat = build.harness("plain", "killat", ["killat.c"], libs=False, extra=["-Wno-format-truncation"])
        self.emu = build.tool("plain", "ovniemu")
        self.base = scratch.sub("runs")

    def run(self, tag, scen, mode, inject=None, shortwrite=None, diskfull=None):
        """mode: ('direct',None) or ('tmpdir', 'json-first'|'obs-first').  Returns dict."""
        d = os.path.join(self.base, tag)
        shutil.rmtree(d, ignore_errors=True)
        os.makedirs(d)
        env = dict(os.environ)
        env["OVNI_TRACEDIR"] = os.path.join(d, "final")
        env.pop("OVNI_TMPDIR", None)
        env.pop("VERIF_READDIR", None)
        env.pop("VERIF_SHORTWRITE", None)
        env.pop("VERIF_DISKFULL", None)
        env.pop("VERIF_SHORTWRITEV", None)
        if shortwrite and shortwrite.startswith("v"):
            env["VERIF_SHORTWRITEV"] = shortwrite[1:]
            shortwrite = None
        if shortwrite:
            env["VERIF_SHORTWRITE"] = shortwrite
        if diskfull:
            env["VERIF_DISKFULL"] = diskfull
        cwd = None
        if mode[0] == "tmpdir":
            env["OVNI_TMPDIR"] = os.path.join(d, "tmp")
            env["VERIF_READDIR"] = mode[1]
        elif mode[0] == "same":
            # OVNI_TMPDIR names the trace directory itself (under another spelling)
            env["OVNI_TMPDIR"] = os.path.join(d, ".", "final")
        elif mode[0] == "rel":
            # the trace directory is given relative to the working directory (the default "ovni" is)
            env["OVNI_TRACEDIR"] = "final"
            cwd = d
            if mode[1] == "tmp":
                env["OVNI_TMPDIR"] = "tmp"
                env["VERIF_READDIR"] = "obs-first"
        log = os.path.join(d, "log")
        # harness/killat.c: ptrace tracer; inject is None, "kill:N" or "err:N:ERRNO" (N = global index in the runtime phase)
        cmd = [self.killat, log, inject or "-"]
        if scen.startswith("q:"):
            # not from the initial state: another process of the same loom (pid 200, threads 201..) has left its complete trace there
            p0 = subprocess.run([self.exe] + SCEN["h4a"].split(), env=dict(env, VERIF_PIDBASE="200"), stdout=subprocess.PIPE, stderr=subprocess.PIPE, timeout=60)
            if p0.returncode != 0:
                raise InfraError("run of the other process failed: %s" % p0.stderr.decode("latin1")[-300:])
        if scen.startswith("r:"):
            # not from the initial state: the directories hold the complete trace of an earlier run (another program, same pid and tids)
            p0 = subprocess.run([self.exe] + SCEN["h2"].split(), env=env, stdout=subprocess.PIPE, stderr=subprocess.PIPE, timeout=60)
            if p0.returncode != 0:
                raise InfraError("earlier run failed: %s" % p0.stderr.decode("latin1")[-300:])
        cmd += [self.exe] + [o for o in SCEN[scen.split(":")[-1]].split() if o != "|"]
        r = subprocess.run(cmd, env=env, stdout=subprocess.PIPE, stderr=subprocess.PIPE, timeout=60, cwd=cwd)
        return {"dir": d, "rc": r.returncode, "stderr": r.stderr.decode("latin1"), "log": parse_log(log), "final": os.path.join(d, "final"),
                "tmp": (os.path.join(d, "tmp") if env.get("OVNI_TMPDIR") == "tmp" else env.get("OVNI_TMPDIR"))}

    def emulate(self, final):
        if not os.path.isdir(final):
            return 1, "no trace directory"
        rc, out, err = emusrv.run_tool(self.emu, [final])
        return rc, err[-300:]


def thread_dirs(root):
    out = {}
    if root and os.path.isdir(root):
        for dp, dn, fn in os.walk(root):
            m = re.search(r"thread\.(\d+)$", dp)
            if m:
                out[int(m.group(1))] = dp
    return out


def read(p):
    try:
        return open(p, "rb").read()
    except OSError:
        return None


def plan(runner, scen, mode, tag):
    """fault-free run: reference content + the list of runtime syscalls per thread"""
    r = runner.run(tag + "-ref", scen, mode)
    if r["rc"] != 0:
        raise InfraError("fault-free run of %s/%s failed: %s" % (scen, mode, r["stderr"][-300:]))
    start = runtime_phase(r["log"])
    if start is None:
        raise InfraError("sentinel not found in the syscall log")
    full = {}
    for tid, dp in thread_dirs(r["final"]).items():
        full[tid] = {"obs": read(os.path.join(dp, "stream.obs")), "json": read(os.path.join(dp, "stream.json"))}
    rc, msg = runner.emulate(r["final"])
    if rc != 0:
        raise InfraError("fault-free trace of %s/%s rejected by ovniemu: %s" % (scen, mode, msg))
    return r, full, seq_of(r["log"])


def seq_of(log):
    """the runtime-phase syscalls of a logged run; n = position among all logged syscalls of the runtime phase, whatever
    the thread (the tracer counts the same way)"""
    start = runtime_phase(log)
    if start is None:
        return []
    seq = []
    pids = []
    idx = 0
    for e in log[start:]:
        if e[1] in ("+++", "note"):
            continue
        idx += 1
        if "VERIF-END" in e[2]:
            continue
        if e[0] not in pids:
            pids.append(e[0])
        seq.append({"thread": pids.index(e[0]), "sc": e[1], "n": idx, "args": e[2][:80], "ret": e[3], "tail": e[4]})
    return seq


def is_mutating(s):
    mut = s["sc"] in MUTATING and not ("EEXIST" in s["tail"]) and not (s["sc"] == "openat" and "O_RDONLY" in s["args"] and "O_CREAT" not in s["args"])
    if s["sc"] == "write" and s["args"].startswith(("2,", "-1,")):
        mut = False
    return mut


def shadowed(seq, i):
    """kept for the evidence field: the ptrace tracer targets every point exactly (strace's per-thread counters did not)"""
    return False


def run_c09(prop, tier):
    ctx = Ctx("C09", tier, "fault_enumeration")
    tier = plan_of("C09", tier)
    ctx.cov["plan"] = tier
    scratch = Scratch("C09")
    try:
        build = Build()
        runner = Runner(build, scratch)
        if tier == "quick":
            scens = ["h1", "h3", "h4a", "r:h3", "h7"]
        else:
            scens = [k for k in SCEN if not k.startswith("_")] + ["r:h3", "r:h1", "r:h5", "q:h1", "q:h3"]
            gen = interleavings(2 if tier == "thorough" else 3)
            SCEN.update(gen)
            scens += list(gen)
            ctx.part("generated-interleavings", scenarios=len(gen), max_context_switches=2 if tier == "thorough" else 3)
        modes = [("direct", None), ("tmpdir", "json-first"), ("tmpdir", "obs-first")]
        jobs = []
        refs = {}
        olds = {}
        nshadow = 0
        for sc in scens:
            for mode in modes:
                tag = "%s-%s-%s" % (sc, mode[0], mode[1])
                r, full, seq = plan(runner, sc, mode, tag)
                refs[(sc, mode)] = full
                if "|" in SCEN[sc.split(":")[-1]]:
                    # what the first owner of the thread id leaves behind
                    SCEN["_old_" + sc] = SCEN[sc].split("|")[0]
                    r0 = runner.run(tag + "-old", "_old_" + sc, mode)
                    olds[(sc, mode)] = {tid: (read(os.path.join(dp, "stream.json")), read(os.path.join(dp, "stream.obs")))
                                        for tid, dp in thread_dirs(r0["final"]).items()}
                if sc.startswith("r:"):
                    # what the earlier run alone leaves behind (a thread directory still in that state was not touched yet)
                    r0 = runner.run(tag + "-old", "h2", mode)
                    olds[(sc, mode)] = {tid: (read(os.path.join(dp, "stream.json")), read(os.path.join(dp, "stream.obs")))
                                        for tid, dp in thread_dirs(r0["final"]).items()}
                for i, s in enumerate(seq):
                    if not is_mutating(s):
                        continue     # killing before a call without file-system effect leaves the same state as the next kill point
                    jobs.append((sc, mode, i, s, None))
                if sc.startswith("g"):
                    ctx.part("plan-generated", runtime_syscalls=len(seq), kill_points=sum(1 for j in jobs if j[0] == sc and j[1] == mode))
                else:
                    ctx.part("plan-" + tag, runtime_syscalls=len(seq), kill_points=sum(1 for j in jobs if j[0] == sc and j[1] == mode))
        # second deviation (deep plan): a fault the runtime survives, then the kill at every later point of that run
        nsurv = 0
        if tier == "deep":
            first = []
            for sc in ("h1", "h2", "h3", "h5"):
                for mode in modes:
                    if (sc, mode) not in refs:
                        refs[(sc, mode)] = plan(runner, sc, mode, "%s-%s-%s" % (sc, mode[0], mode[1]))[1]
                    seq = plan(runner, sc, mode, "p2")[2]
                    for i, s in enumerate(seq):
                        if s["sc"] == "write" and s["args"].startswith(("2,", "-1,")):
                            continue
                        for e in FAULTS.get(s["sc"], []):
                            first.append((sc, mode, s, e))

            def probe(f):
                sc, mode, s, e = f
                r = runner.run("s%d" % os.getpid(), sc, mode, inject="err:%d:%s" % (s["n"], e))
                if r["rc"] != 0 or not any("(INJECTED)" in x[4] for x in r["log"]):
                    return None
                return seq_of(r["log"])
            for f, seq2 in zip(first, pmap(probe, first)):
                if seq2 is None:
                    continue
                nsurv += 1
                sc, mode, s, e = f
                for i, s2 in enumerate(seq2):
                    if s2["n"] > s["n"] and is_mutating(s2):
                        jobs.append((sc, mode, i, s2, "err:%d:%s" % (s["n"], e)))
            ctx.part("second-deviation", first_faults_tried=len(first), survived=nsurv,
                     kill_points_after_a_survived_fault=sum(1 for j in jobs if j[4]))

        def one(j):
            sc, mode, i, s, pre = j
            tag = "k%d" % os.getpid()
            r = runner.run(tag, sc, mode, inject=(pre + "," if pre else "") + "kill:%d" % s["n"])
            full = refs[(sc, mode)]
            prefix = r["tmp"] if mode[0] == "tmpdir" else r["final"]
            fl = flushed_bytes(r["log"], prefix)
            killed = any(e[1] == "+++" and "killed by SIGKILL" in e[2] for e in r["log"])
            if not killed:
                return ("nokill", "the kill before %s #%d did not fire (exit %r)" % (s["sc"], s["n"], r["rc"]))
            rc, msg = runner.emulate(r["final"])
            probs = []
            for tid, dp in thread_dirs(r["final"]).items():
                js = read(os.path.join(dp, "stream.json"))
                ob = read(os.path.join(dp, "stream.obs"))
                if js is None:
                    continue          # not a stream: the emulator does not load it
                if tid >= 200:
                    # the finished stream another process left there: this process must not have touched it
                    if rc == 0 and (ob != full[tid]["obs"] or js != full[tid]["json"]):
                        probs.append("P1: ovniemu accepts the trace but the finished stream thread.%d of another process was altered (%d of %d bytes)" % (
                            tid, len(ob or b""), len(full[tid]["obs"])))
                    continue
                if (sc, mode) in olds and olds[(sc, mode)].get(tid) == (js, ob):
                    continue          # still the complete stream of the earlier run: this run has not touched it
                want = full[tid]["obs"][:fl.get(tid, 0)]
                if rc == 0:
                    if ob is None or ob[:len(want)] != want:
                        probs.append("P1: ovniemu accepts the trace but stream thread.%d holds %d bytes while %d bytes had been flushed" % (
                            tid, len(ob or b""), len(want)))
                try:
                    fin = json.loads(js).get("ovni", {}).get("finished") == 1
                except ValueError:
                    fin = False
                if fin and (sc, mode) in olds:
                    # a finished mark left by the earlier run: the stream next to it must at least hold what this run flushed
                    if ob is None or ob[:len(want)] != want:
                        probs.append("P2: thread.%d/stream.json (left by the earlier run) says finished but stream.obs holds %d bytes while this run had flushed %d" % (
                            tid, len(ob or b""), len(want)))
                elif fin and ob != full[tid]["obs"]:
                    probs.append("P2: thread.%d/stream.json is marked finished in the final directory but stream.obs has %d of %d bytes" % (
                        tid, len(ob or b""), len(full[tid]["obs"])))
            return ("ok", probs, rc)
        acc = 0
        for j, res in zip(jobs, pmap(one, jobs)):
            sc, mode, i, s, pre = j
            ctx.add(evaluations=1)
            if res[0] == "nokill":
                ctx.part("not-fired", **{"%s-%s-%d" % (sc, mode, i): res[1]})
                continue
            if res[2] == 0:
                acc += 1
            for p in res[1]:
                ctx.violation("scenario %s mode %s%s, killed before syscall #%d %s(%s): %s" % (sc, mode, (" after the survived fault " + pre) if pre else "", i, s["sc"], s["args"][:60], p),
                              {"engine": "E5 ptrace kill", "scenario": sc, "ops": SCEN[sc.split(":")[-1]], "mode": mode, "kill_before": s, "after_fault": pre},
                              {"kind": p[:2], "mode": mode[0], "readdir": mode[1]})
        ctx.cov["distinct_nontrivial"] = len(jobs)
        ctx.cov["accepted_by_emulator_after_kill"] = acc
        ctx.cov["kill_points_shadowed_by_per_thread_counting"] = nshadow
        ctx.cov["rule"] = ("scenarios (minimal; several explicit/automatic flushes > 8 KiB; first life ending exactly on a 4096-byte boundary then a second life; "
                           "metadata flush in the middle; two threads in three serialisations; three threads; every merge of two thread scripts with at most 2 (deep plan: 3) changes of the running thread; a thread id used again after its first owner ended; r:<scenario> = the same after a complete earlier run of another program with the same pid/tid in the same directories; q:<scenario> = next to the finished trace of another process of the loom; deep plan: also after one fault the runtime survives) x {direct, OVNI_TMPDIR with stream.json or stream.obs returned first "
                           "by readdir}: the process is killed before every syscall that changes the file system (kills before calls without effect leave the same "
                           "state); oracle P1: if ovniemu accepts, every loaded stream contains all bytes its thread had flushed; P2: a finished stream.json in the "
                           "final directory implies the complete stream.obs next to it")
        ctx.sample({"scenario": "h3", "ops": SCEN["h3"], "mode": ["tmpdir", "json-first"], "kill": "before the 2nd write to final/.../stream.obs"})
        ctx.assumptions += ["SIGKILL at syscall entry: the call does not execute (harness/killat.c, ptrace); the driver runs one thread at a time, so "
                            "the global syscall order is deterministic and every point of every thread is targeted exactly", "data in stdio buffers is lost at the kill, page cache is not (process crash, not power loss)"]
        return ctx.finish()
    finally:
        scratch.cleanup()


FAULTS = {"getcwd": ["ERANGE", "ENOENT"], "chdir": [], "mkdir": ["EACCES", "ENOSPC"], "openat": ["EACCES", "ENOSPC", "EMFILE"], "write": ["ENOSPC", "EIO", "EINTR"], "read": ["EIO"],
          "close": ["EIO"], "unlink": ["EACCES"], "rmdir": ["EACCES"], "newfstatat": ["EACCES"], "getdents64": ["EIO"], "fdatasync": ["EIO"],
          "writev": ["ENOSPC", "EIO", "EINTR"], "pwrite64": ["ENOSPC", "EIO"], "pwritev": ["ENOSPC", "EIO"], "pwritev2": ["ENOSPC", "EIO"],
          "rename": ["EACCES", "EXDEV"], "renameat": ["EACCES", "EXDEV"], "renameat2": ["EACCES", "EXDEV"], "unlinkat": ["EACCES"], "mkdirat": ["EACCES", "ENOSPC"],
          "open": ["EACCES", "ENOSPC", "EMFILE"], "creat": ["EACCES", "ENOSPC"], "link": ["EACCES"], "linkat": ["EACCES"], "symlink": ["EACCES"],
          "symlinkat": ["EACCES"], "truncate": ["EIO"], "ftruncate": ["EIO"], "fsync": ["EIO"], "fallocate": ["ENOSPC"], "sendfile": ["EIO", "ENOSPC"],
          "copy_file_range": ["EIO", "ENOSPC", "EXDEV"]}


def run_c10(prop, tier):
    ctx = Ctx("C10", tier, "fault_enumeration")
    tier = plan_of("C10", tier)
    ctx.cov["plan"] = tier
    scratch = Scratch("C10")
    try:
        build = Build()
        runner = Runner(build, scratch)
        scens = ["h1", "h2"] if tier == "quick" else ["h1", "h2", "h3", "h5", "h4a", "h8", "h9", "h10", "h11", "r:h1", "r:h3", "q:h1"]
        if tier != "quick":
            gen = interleavings(1 if tier == "thorough" else 2)
            SCEN.update(gen)
            scens += list(gen)
            ctx.part("generated-interleavings", scenarios=len(gen), max_context_switches=1 if tier == "thorough" else 2)
        modes = [("direct", None), ("tmpdir", "obs-first"), ("same", None)] if tier == "quick" else \
                [("direct", None), ("tmpdir", "json-first"), ("tmpdir", "obs-first"), ("same", None)]
        jobs = []
        refs = {}
        for sc in scens:
            # the scenario that changes its working directory runs with relative trace directories (as the default "ovni" is)
            for mode in (modes if sc not in ("h10", "h11") else [("rel", None), ("rel", "tmp")]):
                tag = "%s-%s-%s" % (sc, mode[0], mode[1])
                r, full, seq = plan(runner, sc, mode, tag)
                refs[(sc, mode)] = full
                for i, s in enumerate(seq):
                    if shadowed(seq, i):
                        continue
                    if s["sc"] == "write" and s["args"].startswith("2,"):
                        continue
                    if '"elsewhere"' in s["args"]:
                        continue        # the program's own mkdir / chdir, not the runtime's
                    for e in FAULTS.get(s["sc"], []):
                        if tier == "quick" and e != FAULTS[s["sc"]][0] and s["sc"] != "write":
                            continue
                        jobs.append((sc, mode, i, s, e, None))
                # the same at the system-call level, where stdio's own writes (metadata, relocation copy) are reached too: every
                # write is cut short once, and - separately - is the write during which the disk fills up
                for i, s in enumerate(seq):
                    if s["sc"] in WRITES + ("sendfile", "copy_file_range") and not s["args"].startswith(("2,", "-1,")):
                        try:
                            if s["sc"] in ("write", "pwrite64") and int(s["args"].rsplit(",", 1)[1]) <= 1:
                                continue
                        except ValueError:
                            continue
                        for how in ((2,) if sc.startswith(("g", "r:", "q:")) else (1, 2, 3)):
                            jobs.append((sc, mode, i, s, "short:%d" % how, None))
                        for how in (1, 2):
                            jobs.append((sc, mode, i, s, "full:%d" % how, None))
                # a vectored write cut at any byte (in the driver: the tracer can only drop whole segments); none in today's runtime
                nv = 0
                for i, s in enumerate(seq):
                    if s["sc"] == "writev" and not s["args"].startswith(("2,", "-1,")):
                        nv += 1
                        for how in (1, 2, 3, 5, 13, 17, 40):
                            jobs.append((sc, mode, i, s, "SHORTv%d:%d" % (nv, how), None))

        def one(j):
            sc, mode, i, s, e, pre = j
            tag = "f%d" % os.getpid()
            if e.startswith("SHORT"):
                r = runner.run(tag, sc, mode, shortwrite=e[5:])
                fired = any("VERIF-SHORT" in x[2] for x in r["log"])
            elif e.startswith("FULL"):
                r = runner.run(tag, sc, mode, diskfull=e[4:])
                fired = any("VERIF-DISKFULL" in x[2] for x in r["log"])
            elif e.startswith(("short:", "full:")):
                r = runner.run(tag, sc, mode, inject="%s:%d:%s" % (e.split(":")[0], s["n"], e.split(":")[1]))
                fired = any(x[1] == "note" and "VERIF-SHORTENED" in x[2] for x in r["log"])
            else:
                r = runner.run(tag, sc, mode, inject=(pre + "," if pre else "") + "err:%d:%s" % (s["n"], e))
                fired = sum(1 for x in r["log"] if "(INJECTED)" in x[4]) == (2 if pre else 1)
            full = refs[(sc, mode)]
            if not fired:
                return ("nofire", [], None)
            aborted = r["rc"] in (134, -6) or any(x[1] == "+++" and "SIGABRT" in x[2] for x in r["log"])
            probs = []
            # never delete the only complete copy
            if mode[0] == "tmpdir":
                tdirs, fdirs = thread_dirs(r["tmp"]), thread_dirs(r["final"])
                for tid in full:
                    for f in ("stream.obs", "stream.json"):
                        want = full[tid]["obs" if f.endswith("obs") else "json"]
                        src = read(os.path.join(tdirs[tid], f)) if tid in tdirs else None
                        dst = read(os.path.join(fdirs[tid], f)) if tid in fdirs else None
                        # did this run remove the temporary file?  (its own successful unlink, from the syscall log: what an
                        # earlier run left in the final directory says nothing about this one)
                        removed = tid in tdirs or src is None
                        removed = src is None and any(e[1] == "unlink" and e[3] == "0" and r["tmp"] in e[2] and ("thread.%d/%s" % (tid, f)) in e[2]
                                                      for e in r["log"])
                        if removed and dst != want:
                            probs.append("the temporary %s of thread.%d was removed although its copy in the final directory is incomplete (%d of %d bytes)" % (
                                f, tid, len(dst or b""), len(want)))
            if aborted:
                if not r["stderr"].strip():
                    probs.append("terminated by abort without a diagnostic")
                return ("abort", probs, None)
            if r["rc"] != 0:
                probs.append("exit status %r (neither a normal return nor an abort)" % r["rc"])
                return ("other", probs, None)
            # returned normally: the final trace must be complete and valid
            fdirs = thread_dirs(r["final"])
            for tid in full:
                ob = read(os.path.join(fdirs[tid], "stream.obs")) if tid in fdirs else None
                js = read(os.path.join(fdirs[tid], "stream.json")) if tid in fdirs else None
                if ob != full[tid]["obs"]:
                    if ob is not None and len(ob) == len(full[tid]["obs"]):
                        probs.append("returned normally but the final stream.obs of thread.%d does not hold the flushed bytes (same length %d, different content)" % (tid, len(ob)))
                    else:
                        probs.append("returned normally but the final stream.obs of thread.%d has %d of %d flushed bytes" % (tid, len(ob or b""), len(full[tid]["obs"])))
                elif js is None or b'"finished": 1' not in js:
                    probs.append("returned normally but the final stream.json of thread.%d is missing or not finished" % tid)
            if not probs:
                rc, msg = runner.emulate(r["final"])
                if rc != 0:
                    probs.append("returned normally but ovniemu rejects the final trace: %s" % msg[-120:])
            return ("normal", probs, seq_of(r["log"]) if (pre is None and not e.startswith(("SHORT", "FULL", "short:", "full:"))) else None)
        outcomes = {}

        def collect(jobs, results, second):
            for j, res in zip(jobs, results):
                sc, mode, i, s, e, pre = j
                ctx.add(evaluations=1)
                outcomes[res[0]] = outcomes.get(res[0], 0) + 1
                if res[0] == "nofire":
                    continue
                for p in res[1]:
                    ctx.violation("scenario %s mode %s, %s%s on syscall #%d %s(%s): %s" % (sc, mode, ("after the survived fault %s, " % pre) if pre else "", e, i, s["sc"], s["args"][:70], p),
                                  {"engine": "E5 ptrace fault", "scenario": sc, "ops": SCEN[sc.split(":")[-1]], "mode": mode, "fault": e, "syscall": s, "after_fault": pre},
                                  {"kind": "io-fault", "syscall": s["sc"], "what": p.split(" ")[0]})
                if res[0] == "normal" and res[2] is not None and second is not None and sc in ("h1", "h2", "h3", "h5"):
                    # the runtime survived this fault: every later call of that run fails once more (deviation bound 2)
                    for i2, s2 in enumerate(res[2]):
                        if s2["n"] <= s["n"] or (s2["sc"] == "write" and s2["args"].startswith(("2,", "-1,"))):
                            continue
                        for e2 in FAULTS.get(s2["sc"], [])[:2]:
                            second.append((sc, mode, i2, s2, e2, "err:%d:%s" % (s["n"], e)))
        second = [] if tier == "deep" else None
        collect(jobs, pmap(one, jobs), second)
        if second:
            ctx.part("second-deviation", survived_first_faults=len({(j[0], j[1], j[5]) for j in second}), fault_pairs=len(second))
            collect(second, pmap(one, second), None)
            jobs = jobs + second
        ctx.cov["distinct_nontrivial"] = len(jobs)
        ctx.cov["outcomes"] = outcomes
        ctx.cov["rule"] = ("the same scenarios and modes as C09 plus OVNI_TMPDIR naming the trace directory; every runtime-phase syscall (mkdir, openat, write, read, close, newfstatat, getdents64, unlink, rmdir) "
                           "fails once with each errno of its class (EACCES/ENOSPC/EMFILE/EIO, EINTR for write; deep plan: and, when the runtime survives that, every later call fails once more), and every call that moves data into a file (write, pwrite64, writev, sendfile, copy_file_range - stdio's own writes included) is cut short once "
                           "(1 byte, half, all but one byte; by the tracer, at the system-call level) and, separately, is the call during which the disk fills up (cut short, then ENOSPC on every later write); a scenario that changes its working directory before a second thread starts, with relative directories and getcwd() failing; oracle: abort with a diagnostic, or normal return with a complete "
                           "valid final trace accepted by ovniemu; in both cases no temporary file is removed while its final copy is incomplete")
        ctx.sample({"scenario": "h2", "mode": ["tmpdir", "obs-first"], "fault": "ENOSPC on the 2nd write of the relocation copy of stream.obs"})
        ctx.assumptions += ["single faults (deep plan: pairs whose first fault is survived); short counts and the full disk are produced at the system-call level, so stdio's own writes are reached too",
                            "error injection (harness/killat.c, ptrace): the call does not execute and returns -errno"]
        return ctx.finish()
    finally:
        scratch.cleanup()


def run(prop, tier):
    return run_c09(prop, tier) if prop == "C09" else run_c10(prop, tier)
