"""C04 (thread life-cycle) and C05 (CPU occupancy): TLC state graph of
tla/ThreadCpu.tla walked edge by edge -- and non-edge by non-edge -- against
the real emulator (form B of DESIGN.md)."""
import os, itertools, json
from lib.common import Ctx, Build, Scratch, InfraError, VERIF
from lib import emusrv, tlc, pv, obs
from lib.emusrv import Ev, Fin, i32, i64
from lib.explore import ServerPool, Explorer, Ref, short_hist

ST_VAL = {"unknown": 0, "running": 1, "paused": 2, "dead": 3, "cooling": 4, "warming": 5}
ACTIVE = ("running", "cooling", "warming")

# ---------------------------------------------------------------------------
# configurations
# ---------------------------------------------------------------------------
CONFIGS = {
    # one loom, logical index != physical id, two threads of one process
    # (index 0 has physical id 1 and vice versa, so any index/phyid confusion changes a row)
    "A2": [{"name": "A", "cpus": [(0, 1), (1, 0)],
            "procs": [{"pid": 100, "threads": [101, 102]}]}],
    # + a thread of a second process
    "A3": [{"name": "A", "cpus": [(0, 2), (1, 5)],
            "procs": [{"pid": 100, "threads": [101, 102]}, {"pid": 200, "threads": [201]}]}],
    # two looms: isolation of CPU sets and remote affinity
    "AB": [{"name": "A", "cpus": [(0, 1), (1, 0)], "procs": [{"pid": 100, "threads": [101, 102]}]},
           {"name": "B", "cpus": [(0, 0)], "procs": [{"pid": 300, "threads": [301]}]}],
    # two processes with one thread each (per-process thread tables, remote lookups through the loom)
    "P2": [{"name": "A", "cpus": [(0, 1), (1, 0)],
            "procs": [{"pid": 100, "threads": [101]}, {"pid": 200, "threads": [201]}]}],
    # smallest: one physical cpu
    "A2c1": [{"name": "A", "cpus": [(0, 4)], "procs": [{"pid": 100, "threads": [101, 102]}]}],
}


class Layout:
    """Independent computation of row numbers from the trace specification:
    looms by name, processes by pid, threads by tid; CPUs by loom then physical
    id, the loom's virtual CPU last."""

    def __init__(self, spec):
        self.spec = spec
        self.threads = {}   # name -> dict
        self.cpus = {}      # name -> dict
        self.tnames = []
        trow = 0
        crow = 0
        k = 0
        for l in sorted(spec, key=lambda l: l["name"]):
            for p in sorted(l["procs"], key=lambda p: p["pid"]):
                for t in sorted(p["threads"]):
                    pass
        # thread names t0.. follow spec order (stream order = relpath order is computed separately)
        for l in spec:
            for p in l["procs"]:
                for t in p["threads"]:
                    n = "t%d" % k
                    k += 1
                    self.threads[n] = {"loom": l["name"], "pid": p["pid"], "tid": t,
                                       "rel": obs.relpath(l["name"], p["pid"], t)}
                    self.tnames.append(n)
        order = sorted(self.tnames, key=lambda n: (self.threads[n]["loom"], self.threads[n]["pid"], self.threads[n]["tid"]))
        for i, n in enumerate(order):
            self.threads[n]["row"] = i + 1
        g = 0
        for l in sorted(spec, key=lambda l: l["name"]):
            for (idx, phy) in sorted(l["cpus"], key=lambda c: c[1]):
                self.cpus["%s%d" % (l["name"], idx)] = {"loom": l["name"], "index": idx, "phyid": phy, "row": g + 1, "virtual": False}
                g += 1
            self.cpus["%sv" % l["name"]] = {"loom": l["name"], "index": -1, "phyid": -1, "row": g + 1, "virtual": True}
            g += 1
        self.looms = sorted(set(l["name"] for l in spec))

    def cpus_of(self, loom):
        return [c for c, d in self.cpus.items() if d["loom"] == loom]


def mc_module(layout):
    T = layout.tnames
    L = layout.looms
    q = lambda s: '"%s"' % s
    loomof = " @@ ".join("%s :> %s" % (q(t), q(layout.threads[t]["loom"])) for t in T)
    physof = " @@ ".join("%s :> {%s}" % (q(l), ", ".join(q(c) for c in layout.cpus_of(l) if not layout.cpus[c]["virtual"])) for l in L)
    virtof = " @@ ".join("%s :> %s" % (q(l), q(l + "v")) for l in L)
    defs, acts = [], []
    for t in T:
        for n, a in (("c", "Cool"), ("p", "Pause"), ("w", "Warm"), ("r", "Resume"), ("e", "End")):
            defs.append('a_%s_%s == %s(%s)' % (n, t, a, q(t)))
            acts.append('a_%s_%s' % (n, t))
        for c in layout.cpus_of(layout.threads[t]["loom"]):
            defs.append('a_x_%s_%s == Execute(%s,%s)' % (t, c, q(t), q(c)))
            acts.append('a_x_%s_%s' % (t, c))
            defs.append('a_s_%s_%s == AffSet(%s,%s)' % (t, c, q(t), q(c)))
            acts.append('a_s_%s_%s' % (t, c))
            for e in T:
                if layout.threads[e]["loom"] == layout.threads[t]["loom"]:
                    defs.append('a_R_%s_%s_%s == AffRemote(%s,%s,%s)' % (e, t, c, q(e), q(t), q(c)))
                    acts.append('a_R_%s_%s_%s' % (e, t, c))
    text = "---- MODULE MCThreadCpu ----\nEXTENDS ThreadCpu\n"
    text += "MCThreads == {%s}\nMCLooms == {%s}\n" % (", ".join(map(q, T)), ", ".join(map(q, L)))
    text += "MCLoomOf == %s\nMCPhysOf == %s\nMCVirtOf == %s\n" % (loomof, physof, virtof)
    text += "\n".join(defs) + "\nMCNext == " + " \\/ ".join(acts) + "\nMCSpec == Init /\\ [][MCNext]_vars\n====\n"
    cfg = ("SPECIFICATION MCSpec\nCONSTANTS\n Threads <- MCThreads\n Looms <- MCLooms\n LoomOf <- MCLoomOf\n"
           " PhysOf <- MCPhysOf\n VirtOf <- MCVirtOf\nINVARIANTS TypeOK NoOversubscription BoundIffAlive\n"
           "PROPERTIES DeadIsFinal\nCHECK_DEADLOCK FALSE\n")
    return text, cfg


ACT2OP = {"Execute": "x", "Cool": "c", "Pause": "p", "Warm": "w", "Resume": "r", "End": "e",
          "AffSet": "s", "AffRemote": "R"}


class TcRef(Ref):
    """Reference = the TLC state graph; alphabet = every OH*/OA* event on every stream."""

    def __init__(self, layout, graph, stream_idx, finish=True, dts=(1,)):
        self.layout = layout
        self.spec = layout.spec
        self.nodes, self.edges = graph
        self.sidx = stream_idx    # thread name -> server stream index
        self.finish = finish
        self.dts = dts
        self._alpha = None

    def init(self):
        T = self.layout.tnames
        return (tuple("unknown" for _ in T), tuple("none" for _ in T))

    def alphabet(self, s):
        if self._alpha is not None:
            return self._alpha
        L = self.layout
        out = []
        for dt in self.dts:
            for t in L.tnames:
                si = self.sidx[t]
                tid = L.threads[t]["tid"]
                loom = L.threads[t]["loom"]
                own = [c for c in L.cpus_of(loom)]
                for c in own:
                    out.append((("x", t, c, dt), Ev(si, "OHx", i32(L.cpus[c]["index"], tid) + i64(0), dt)))
                out.append((("x", t, "?7", dt), Ev(si, "OHx", i32(7, tid) + i64(0), dt)))
                for op in "epr cw".replace(" ", ""):
                    out.append(((op, t, dt), Ev(si, "OH" + op, b"", dt)))
                for c in own:
                    out.append((("s", t, c, dt), Ev(si, "OAs", i32(L.cpus[c]["index"]), dt)))
                out.append((("s", t, "?7", dt), Ev(si, "OAs", i32(7), dt)))
                for u in L.tnames:
                    ul = L.threads[u]["loom"]
                    for c in L.cpus_of(loom):
                        # emitter t moves thread u (possibly of another loom: must not be found)
                        out.append((("R", t, u, c, dt), Ev(si, "OAr", i32(L.cpus[c]["index"], L.threads[u]["tid"]), dt)))
        if self.finish:
            out.append((("F", 1), Fin(1)))
            out.append((("F", 0), Fin(0)))
        self._alpha = out
        return out

    def _safe(self, st, cpu):
        L = self.layout
        cnt = {}
        for i, t in enumerate(L.tnames):
            if st[i] == "running" and cpu[i] != "none" and not L.cpus[cpu[i]]["virtual"]:
                cnt[cpu[i]] = cnt.get(cpu[i], 0) + 1
        return all(v <= 1 for v in cnt.values())

    def step(self, s, label):
        st, cpu = s
        L = self.layout
        op = label[0]
        if op == "F":
            dead = all(x == "dead" for x in st)
            return ("ok" if dead else "fail", None, "all threads dead" if dead else "some thread is not dead")
        key = tuple(label[:-1])
        s2 = self.edges.get((s, key))
        if op in "xeprcw":
            if op == "x" and st[L.tnames.index(label[1])] == "dead":
                return ("soft", None, "execute of a dead thread is outside the quantified space")
            if s2 is not None:
                return ("ok", s2, "edge of the TLC graph")
            return ("fail", None, "not an edge of the TLC graph")
        # affinity: an event the model enables must be accepted - except the remote affinity that names the CPU its target is
        # already bound to, which the tree refuses ("cannot modify dirty channel" / "same value": observed, not judged);
        # events the model does not enable are observed only; oversubscription is always refused
        if s2 is not None:
            if op == "R" and cpu[L.tnames.index(label[2])] == label[3]:
                return ("soft", s2, "remote affinity onto the CPU the thread is on")
            return ("ok", s2, "affinity change enabled by the model")
        if op == "s":
            t, c = label[1], label[2]
            i = L.tnames.index(t)
            if c in L.cpus and cpu[i] != "none":
                k2 = tuple(c if j == i else cpu[j] for j in range(len(cpu)))
                if not self._safe(st, k2):
                    return ("fail", None, "would put two running threads on physical %s" % c)
        if op == "R":
            e, u, c = label[1], label[2], label[3]
            i = L.tnames.index(u)
            if L.threads[e]["loom"] != L.threads[u]["loom"]:
                return ("fail", None, "target thread belongs to another loom and cannot be found")
            if c in L.cpus and cpu[i] != "none":
                k2 = tuple(c if j == i else cpu[j] for j in range(len(cpu)))
                if not self._safe(st, k2):
                    return ("fail", None, "would put two running threads on physical %s" % c)
        return ("soft", None, "model disables it")

    def display(self, s):
        st, cpu = s
        L = self.layout
        d = {}
        for i, t in enumerate(L.tnames):
            row = L.threads[t]["row"]
            d[("thread", row, 4)] = ST_VAL[st[i]]
            d[("thread", row, 2)] = L.threads[t]["tid"] if st[i] in ACTIVE else 0
            d[("thread", row, 6)] = L.cpus[cpu[i]]["row"] if cpu[i] != "none" else 0
        for c, cd in L.cpus.items():
            run = [t for i, t in enumerate(L.tnames) if cpu[i] == c and st[i] == "running"]
            d[("cpu", cd["row"], 3)] = len(run)
            d[("cpu", cd["row"], 2)] = L.threads[run[0]]["tid"] if len(run) == 1 else 0
            d[("cpu", cd["row"], 1)] = L.threads[run[0]]["pid"] if len(run) == 1 else 0
        return d

    def attribute(self, kind, label):
        if kind in ("crash",):
            return None
        if kind == "display":
            (lab, k) = label
            return "C05" if k[0] == "cpu" else "C04"
        op = label[0] if isinstance(label, tuple) else "?"
        if op in ("s", "R"):
            return "C05"
        if kind == "accepted-illegal" and op in ("x", "r"):
            return None  # may be either the state machine (C04) or oversubscription (C05)
        return "C04"


def build_graph(ctx, scratch, layout, tag):
    text, cfg = mc_module(layout)
    info, dot = tlc.run_tlc(scratch.sub("tlc-" + tag), "MCThreadCpu", cfg, text, ["ThreadCpu.tla"])
    if not info.get("ok"):
        raise InfraError("TLC reported a problem with the reference model itself:\n" + info["output_tail"])
    nodes, edges, init = tlc.parse_dot(dot)
    T = layout.tnames
    pstate = {}
    for nid, lab in nodes.items():
        v = tlc.parse_state(lab)
        pstate[nid] = (tuple(v["st"][t] for t in T), tuple(v["cpu"][t] for t in T))
    E = {}
    for (a, b, lab) in edges:
        name, args = tlc.parse_action(lab)
        key = (ACT2OP[name],) + args
        prev = E.get((pstate[a], key))
        if prev is not None and prev != pstate[b]:
            raise InfraError("TLC graph is not deterministic for %r" % (key,))
        E[(pstate[a], key)] = pstate[b]
    os.remove(dot)
    ctx.part("tlc-" + tag, tlc_distinct_states=info.get("distinct"), tlc_states_generated=info.get("generated"),
             graph_nodes=len(nodes), graph_edges=len(E), invariants="TypeOK NoOversubscription BoundIffAlive DeadIsFinal")
    return set(pstate.values()), E


def binding_pass(ctx, build, scratch, layout, ref, pool, depth, tag, require=None):
    """Histories up to `depth` accepted events, each extended by every probe, are
    written as real stream.obs files and run through the real ovniemu binary; exit
    status and the complete thread.prv / cpu.prv must equal what the exploration
    server produced for the same history."""
    from lib.common import pmap
    emu = build.tool("plain", "ovniemu")
    sysm = emusrv.System(layout.spec, require=require) if require else emusrv.System(layout.spec)
    stream_of = {pool.local.streams[layout.threads[t]["rel"]]: layout.threads[t]["rel"] for t in layout.tnames}
    # enumerate accepted model paths by BFS over the TLC graph (depth-limited)
    s0 = ref.init()
    paths = [(s0, [])]
    allp = [(s0, [])]
    alpha = [(l, e) for (l, e) in ref.alphabet(s0) if not isinstance(e, Fin)]
    for d in range(depth):
        nxt = []
        for (s, h) in paths:
            for (label, ev) in alpha:
                exp, s2, _ = ref.step(s, label)
                if s2 is not None and exp in ("ok",):
                    nxt.append((s2, h + [ev]))
        paths = nxt
        allp += nxt
    cases = []
    for (s, h) in allp:
        for (label, ev) in alpha:
            cases.append(h + [ev])
    base = scratch.sub("bind-" + tag)

    def one(ic):
        i, hist = ic
        td = os.path.join(base, "w%d" % (os.getpid()))
        emusrv.materialise(sysm, td, hist, stream_of)
        rc, out, err = emusrv.run_tool(emu, ["-l", td])
        files = {}
        for n in ("thread.prv", "cpu.prv"):
            p = os.path.join(td, n)
            files[n] = open(p).read() if os.path.exists(p) else None
        return rc, files, err[-300:]
    real = pmap(one, list(enumerate(cases)))
    srv = pool.expand_many([(h, [Fin(1)]) for h in cases])
    n = 0
    for hist, (rc, files, err), (hres, pres) in zip(cases, real, srv):
        n += 1
        if not hres.get("ok"):
            # the server refused an event of the history: the real tool must fail too, and (apart
            # from the failing event's own lines) nothing more is compared
            if rc == 0:
                ctx.violation("binding: server refused %s but real ovniemu accepted the trace" % short_hist(hist),
                              {"engine": "binding", "history": [e.line() for e in hist], "spec": layout.spec},
                              {"kind": "binding-verdict"})
            continue
        r = pres[0]
        ok_srv = r.ok
        if (rc == 0) != ok_srv:
            ctx.violation("binding: verdicts differ for %s: real ovniemu exit=%r, server finish=%s (%s | %s)" % (
                short_hist(hist), rc, r.status, r.msg, err),
                {"engine": "binding", "history": [e.line() for e in hist], "spec": layout.spec}, {"kind": "binding-verdict"})
            continue
        for nme in ("thread.prv", "cpu.prv"):
            if files[nme] != r.files.get(nme):
                ctx.violation("binding: %s differs between real ovniemu and server for %s" % (nme, short_hist(hist)),
                              {"engine": "binding", "history": [e.line() for e in hist], "spec": layout.spec,
                               "real": files[nme], "server": r.files.get(nme)}, {"kind": "binding-prv"})
                break
    ctx.add(traces_validated_against_impl=n)
    ctx.part("binding-" + tag, traces=n, depth=depth)


def finish_hook_factory(layout):
    def hook(s, hist, ev, r, expect):
        out = []
        if r.files is None:
            return out
        for name in ("thread", "cpu"):
            try:
                dur, nrows, lines = pv.parse_prv(r.files.get(name + ".prv", ""))
            except pv.PvError as e:
                out.append(("prv-malformed", "%s.prv: %s" % (name, e)))
                continue
            want = len(layout.tnames) if name == "thread" else len(layout.cpus)
            if nrows != want:
                out.append(("prv-rows", "%s.prv declares %d rows, system has %d" % (name, nrows, want)))
        return out
    return hook


def _merges(a, b, max_switches):
    """All interleavings of the sequences a and b with at most max_switches changes of side."""
    out = []

    def rec(i, j, side, sw, acc):
        if i == len(a) and j == len(b):
            out.append(acc)
            return
        for nxt in (0, 1):
            if (nxt == 0 and i == len(a)) or (nxt == 1 and j == len(b)):
                continue
            s2 = sw + (1 if side is not None and nxt != side else 0)
            if s2 > max_switches:
                continue
            rec(i + (nxt == 0), j + (nxt == 1), nxt, s2, acc + [(nxt, a[i] if nxt == 0 else b[j])])
    rec(0, 0, None, 0, [])
    return out


def loom_isolation(ctx, exe, scratch, prop, tier):
    """Differential check with no hand-written expected value: two looms with the same structure, the same process ids and the same
    thread ids.  Every bounded interleaving of a history of loom A with a history of loom B (thread life events and affinity changes
    across the two processes of the loom) must be accepted, and the thread and CPU rows of each loom must carry exactly the record
    sequence that its history gives when it is emulated alone."""
    one = {"cpus": [(0, 1), (1, 0)], "procs": [{"pid": 100, "threads": [101]}, {"pid": 200, "threads": [201]}]}
    spec1 = [dict(one, name="A")]
    spec2 = [dict(one, name="A"), dict(one, name="B")]
    X = lambda c, tid: ("OHx", i32(c, tid) + i64(0))
    R = lambda c, tid: ("OAr", i32(c, tid))
    S = lambda c: ("OAs", i32(c))
    P, Rs, E, C, W = ("OHp", b""), ("OHr", b""), ("OHe", b""), ("OHc", b""), ("OHw", b"")
    # (thread 0 = process 100 / tid 101, thread 1 = process 200 / tid 201)
    hists = [
        [(0, X(0, 101)), (1, X(1, 201)), (0, R(-1, 201)), (1, P), (1, Rs)],
        [(0, X(0, 101)), (1, X(-1, 201)), (0, R(1, 201)), (1, E), (0, E)],
        [(1, X(0, 201)), (0, X(1, 101)), (1, R(-1, 101)), (0, P), (1, S(1))],
        [(0, X(-1, 101)), (1, X(-1, 201)), (1, R(0, 101)), (0, R(1, 201)), (0, C), (0, P)],
        [(1, X(1, 201)), (1, P), (0, X(1, 101)), (0, R(0, 201)), (1, W), (1, Rs)],
    ]
    pool1 = ServerPool(exe, emusrv.System(spec1).write(scratch.sub("iso1")), ["-l"])
    pool2 = ServerPool(exe, emusrv.System(spec2).write(scratch.sub("iso2")), ["-l"])
    KEEP = {1, 2, 3, 4, 6}
    try:
        s1 = [pool1.local.streams["loom.A/proc.100/thread.101"], pool1.local.streams["loom.A/proc.200/thread.201"]]
        s2 = {(l, k): pool2.local.streams["loom.%s/proc.%d/thread.%d" % (l, pid, tid)]
              for l in "AB" for k, (pid, tid) in enumerate(((100, 101), (200, 201)))}

        def rows_of(lines, loom):
            """record sequence per row of one loom, in the numbering of the loom emulated alone"""
            seq = {}
            for (n, row, tm, ty, val) in lines:
                if ty not in KEEP:
                    continue
                lo, hi = ((1, 2) if n == "thread" else (1, 3)) if loom == "A" else ((3, 4) if n == "thread" else (4, 6))
                if not lo <= row <= hi:
                    continue
                r = row - (lo - 1)
                if n == "thread" and ty == 6 and loom == "B" and val > 0:
                    val -= 3
                seq.setdefault((n, r), []).append((ty, val))
            return seq
        alone = []
        for h in hists:
            hres, _ = pool1.local.expand([Ev(s1[k], m, p, 1) for (k, (m, p)) in h], [], echo=True)
            alone.append(rows_of(pool1.local.init_lines + hres["lines"], "A") if hres.get("ok") else None)
        nrun = 0
        for ia, ha in enumerate(hists):
            for ib, hb in enumerate(hists):
                if alone[ia] is None or alone[ib] is None:
                    continue
                for mg in _merges(ha, hb, 2 if tier == "quick" else 4):
                    evs = [Ev(s2[("AB"[side], k)], m, p, 1) for (side, (k, (m, p))) in mg]
                    hres, _ = pool2.local.expand(evs, [], echo=True)
                    nrun += 1
                    why = None
                    if not hres.get("ok"):
                        why = "refused at event %s: %s" % (hres.get("fail_index"), hres.get("msg"))
                    else:
                        lines = pool2.local.init_lines + hres["lines"]
                        for loom, want in (("A", alone[ia]), ("B", alone[ib])):
                            got = rows_of(lines, loom)
                            for key in sorted(set(got) | set(want)):
                                if got.get(key) != want.get(key) and why is None:
                                    why = "loom %s, %s row %d carries the records %r, alone its history gives %r" % (
                                        loom, key[0], key[1], got.get(key), want.get(key))
                    if why:
                        ctx.violation("two looms with equal process and thread ids, histories %d and %d interleaved %s: %s" % (
                            ia, ib, "".join("AB"[sd] for sd, _ in mg), why),
                            {"engine": "E3", "flags": ["-l"], "spec": spec2, "history": [e.line() for e in evs]},
                            {"kind": "loom-isolation", "histories": [ia, ib]})
                        break
        ctx.add(evaluations=nrun, transitions=nrun * 10, traces_validated_against_impl=nrun)
        ctx.part("loom-isolation", runs=nrun, histories=len(hists), accepted_alone=sum(1 for a in alone if a is not None))
    finally:
        pool1.close()
        pool2.close()


def run(prop, tier):
    ctx = Ctx(prop, tier, "model_checking")
    scratch = Scratch(prop)
    try:
        build = Build()
        exe = build.harness("plain", "emu_server", ["emu_server.c"])
        if prop == "C04":
            # A2c1: one CPU whose physical id (4) differs from its position (0): the thread's CPU-affinity row names the position
            plan = [("A2", (1,), 2), ("P2", (1,), 1), ("A2c1", (1,), 1)] if tier == "quick" else \
                   [("A2", (1, 0), 3), ("P2", (1,), 2), ("A3", (1,), 2), ("AB", (1,), 2), ("A2c1", (1,), 2)]
        else:
            # P2: the two threads belong to two processes of the loom (PID rows, remote affinity across processes)
            plan = [("A2", (1, 0), 2), ("P2", (1,), 2), ("A2c1", (1,), 2)] if tier == "quick" else \
                   [("A3", (1, 0), 2), ("P2", (1, 0), 2), ("AB", (1, 0), 2), ("A2c1", (1, 0), 3)]
        from lib import catalog
        cat = catalog.load_events()
        allreq = {m: d["version"] for m, d in cat.items()}
        for (cfgname, dts, bdepth) in plan:
            # P2 and AB: the streams require every model (end-of-trace checks run through all enabled models)
            req = allreq if cfgname in ("P2", "AB") else None
            if ctx.out_of_time(0.7):
                ctx.cap("configuration %s not started (deadline)" % cfgname)
                continue
            layout = Layout(CONFIGS[cfgname])
            mstates, E = build_graph(ctx, scratch, layout, cfgname)
            system = emusrv.System(layout.spec, require=req) if req else emusrv.System(layout.spec)
            td = system.write(scratch.sub("trace-" + cfgname))
            pool = ServerPool(exe, td, ["-l"])
            pool.meta = system.meta if "system" in dir() else None
            try:
                # the row layout computed from the specification must be the one the emulator uses
                sidx = {}
                for t in layout.tnames:
                    rel = layout.threads[t]["rel"]
                    if rel not in pool.local.streams:
                        raise InfraError("stream %s not loaded" % rel)
                    sidx[t] = pool.local.streams[rel]
                ref = TcRef(layout, (mstates, E), sidx, dts=dts)
                ex = Explorer(ctx, pool, ref, name="walk-" + cfgname, report_props={prop})
                ex.finish_hook = finish_hook_factory(layout)
                st = ex.run()
                unreached = len(mstates - ex.model_seen)
                ctx.part("walk-" + cfgname, tlc_states=len(mstates), tlc_states_not_reached_on_impl=unreached,
                         config=layout.spec, clock_steps=list(dts), models_required=sorted(req) if req else ["ovni"])
                if unreached and not ctx.nviol and ctx.cov["exhaustive"]:
                    # only possible through soft (affinity) refusals; hard edges would have raised
                    ctx.part("walk-" + cfgname, note="model states reachable only through affinity events the emulator refuses")
                if not ctx.nviol:
                    ref1 = TcRef(layout, (mstates, E), sidx, dts=(1,))
                    binding_pass(ctx, build, scratch, layout, ref1, pool, bdepth if tier != "quick" else min(bdepth, 2), cfgname, require=req)
                ctx.sample({"config": cfgname, "example_history": short_hist([e for (_, e) in ref.alphabet(None)[:6]]),
                            "states": st["states"], "probes": st["probes"]})
            finally:
                pool.close()
        ctx.cov["rule"] = ("every state of the TLC graph of tla/ThreadCpu.tla is reached on the real emulator and every event of the "
                           "OH*/OA* alphabet (all threads x all CPUs of the loom + virtual + a non-existent CPU, all remote targets, "
                           "finish with and without lint) is probed there; distinct = (model state, implementation hash) pairs")
        ctx.cov["distinct_nontrivial"] = ctx.cov["states"]
        ctx.assumptions += ["an affinity event the model enables must be accepted (only a remote affinity onto the CPU its target is already on is observed, not judged); events it does not enable are observed; effects and oversubscription are checked",
                            "execute of a dead thread is outside the quantified space",
                            "configurations: <=3 threads, <=2 looms, <=2 physical CPUs per loom"]
        if not ctx.out_of_time(0.9):
            loom_isolation(ctx, exe, scratch, prop, tier)
        from checks import soak
        if not ctx.out_of_time(0.9):
            soak.run_for(ctx, build, scratch, prop, tier)
        return ctx.finish()
    finally:
        scratch.cleanup()
