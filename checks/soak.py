"""Aged states: one long deterministic history per property instead of many short ones.

The bounded searches start every history from the initial state and stop after a few events.  What only shows after many
repetitions (a table that grows, a counter that wraps, a list that is spliced again and again) needs depth, not breadth.
Each family below is a short cycle of events that brings the reference model back to where it was, repeated N times in
ONE trace that goes through the real ovniemu.  The oracle needs no expected values: the records the emulator writes during
cycle k (k >= 2), with times taken relative to the start of the cycle and the values that legitimately depend on k mapped
back, must be exactly the records of cycle 1 - and the trace must be accepted."""
import os
from lib import emusrv, catalog, pv
from lib.emusrv import Ev, i32, i64, u32
from lib.common import pmap

SPEC = [{"name": "A", "cpus": [(0, 0), (1, 1)], "procs": [{"pid": 100, "threads": [101, 102]}]}]
RELS = {0: "loom.A/proc.100/thread.101", 1: "loom.A/proc.100/thread.102"}
X2 = [Ev(0, "OHx", i32(0, 101) + i64(0)), Ev(1, "OHx", i32(1, 102) + i64(0))]
E2 = [Ev(0, "OHe"), Ev(1, "OHe")]


def families(prop, cat, gold):
    """-> list of (name, model, flags, prefix, cycle(k) -> [Ev], suffix, subst(k, type, value) -> value, prv names)"""
    same = lambda k, ty, v: v
    out = []
    if prop in ("C04", "C05", "C06"):
        # thread states and migrations: the per-CPU thread lists are spliced in every cycle
        cyc = lambda k: [Ev(0, "OHc"), Ev(0, "OHp"), Ev(1, "OAs", i32(0)), Ev(1, "OAs", i32(1)), Ev(0, "OHw"), Ev(0, "OHr"),
                         Ev(0, "OAs", i32(-1)), Ev(1, "OAr", i32(0, 101))]
        out.append(("thread-states-and-migrations", "ovni", (), X2, cyc, E2, same, ("thread.prv", "cpu.prv")))
    if prop in ("C06", "C08"):
        for model in ("nosv", "mpi", "nanos6", "openmp"):
            ents = sorted(k for k in gold["enter"] if k[0] == cat[model]["char"])[:6]
            if len(ents) < 2:
                continue
            a, b = ents[0], ents[1]
            la, lb = gold["enter"][a]["leave"], gold["enter"][b]["leave"]
            # nested regions held across a pause (the value leaves and comes back to the rows), both threads
            cyc = (lambda a, b, la, lb: lambda k: [Ev(0, a), Ev(1, b), Ev(0, b), Ev(0, "OHp"), Ev(0, "OHr"), Ev(0, lb), Ev(1, lb), Ev(0, la)])(a, b, la, lb)
            out.append(("regions-%s" % model, model, (), X2, cyc, E2, same, ("thread.prv", "cpu.prv")))
    if prop in ("C07", "C06"):
        for M, model in (("V", "nosv"), ("6", "nanos6")):
            pay = (lambda M: (lambda t: u32(t, 0)) if M == "V" else (lambda t: u32(t)))(M)
            pre = X2 + [Ev(0, M + "Yc", b"", 1, u32(7) + b"ta\0"), Ev(0, M + "Yc", b"", 1, u32(8) + b"tb\0")]
            neutral = ("VAs", "VAS") if M == "V" else ("6Wt", "6WT")
            # a new task in every cycle (the task table grows), run, paused inside an API region, resumed, ended
            cyc = (lambda M, pay, neutral: lambda k: [Ev(0, M + "Tc", u32(1000 + k, 7 + k % 2)), Ev(0, M + "Tx", pay(1000 + k)), Ev(0, neutral[0]),
                                                      Ev(0, M + "Tp", pay(1000 + k)), Ev(0, M + "Tr", pay(1000 + k)), Ev(0, neutral[1]),
                                                      Ev(0, M + "Te", pay(1000 + k))])(M, pay, neutral)
            tid_ty = 10 if M == "V" else 35
            # the task id row shows the id of this cycle's task; the type alternates with period 2: cycles are compared two apart
            sub = (lambda tid_ty: lambda k, ty, v: (v - k) if (ty == tid_ty and v) else v)(tid_ty)
            out.append(("new-task-every-cycle-%s" % model, model, (), pre, cyc, E2, sub, ("thread.prv", "cpu.prv")))
            if M == "V":
                # the same task run again and again (nOS-V tasks may run again after they ended)
                pre2 = pre + [Ev(0, "VTc", u32(1, 7))]
                cyc2 = lambda k: [Ev(0, "VTx", u32(1, 0)), Ev(0, "VTe", u32(1, 0))]
                out.append(("same-task-again-nosv", model, (), pre2, cyc2, E2, same, ("thread.prv", "cpu.prv")))
    if prop == "C17":
        mk = {"*": {"ovni": {"mark": {"0": {"title": "m0", "chan_type": "stack", "labels": {"1": "one", "2": "two"}},
                                      "1": {"title": "m1", "chan_type": "single"}}}}}
        pk = lambda v, t: i64(v) + i32(t)
        cyc = lambda k: [Ev(0, "OM[", pk(1, 0)), Ev(0, "OM[", pk(2, 0)), Ev(0, "OM=", pk(5, 1)), Ev(0, "OHp"), Ev(0, "OHr"), Ev(0, "OM]", pk(2, 0)),
                         Ev(0, "OM=", pk(6, 1)), Ev(0, "OM]", pk(1, 0))]
        out.append(("marks", "ovni", (), X2, cyc, E2, same, ("thread.prv", "cpu.prv"), mk))
    if prop == "C20":
        for M, model in (("V", "nosv"), ("6", "nanos6")):
            pay = (lambda M: (lambda t: u32(t, 0)) if M == "V" else (lambda t: u32(t)))(M)
            pre = X2 + [Ev(0, M + "Yc", b"", 1, u32(7) + b"ta\0"), Ev(0, M + "Yc", b"", 1, u32(8) + b"tb\0"), Ev(0, M + "Tc", u32(1, 7)), Ev(1, M + "Tc", u32(2, 8))]
            neutral = ("VAs", "VAS") if M == "V" else ("6Wt", "6WT")
            if M == "V":
                cyc = (lambda M, pay, neutral: lambda k: [Ev(0, M + "Tx", pay(1)), Ev(1, neutral[0]), Ev(1, M + "Tx", pay(2)), Ev(0, M + "Te", pay(1)), Ev(0, M + "Pr"),
                                                          Ev(1, M + "Te", pay(2)), Ev(0, M + "Pp"), Ev(1, neutral[1])])(M, pay, neutral)
            else:
                # Nanos6 tasks run once: two new tasks per cycle
                cyc = (lambda M, pay, neutral: lambda k: [Ev(0, M + "Tc", u32(1000 + 2 * k, 7)), Ev(1, M + "Tc", u32(1001 + 2 * k, 8)),
                                                          Ev(0, M + "Tx", pay(1000 + 2 * k)), Ev(1, neutral[0]), Ev(1, M + "Tx", pay(1001 + 2 * k)),
                                                          Ev(0, M + "Te", pay(1000 + 2 * k)), Ev(0, M + "Pr"), Ev(1, M + "Te", pay(1001 + 2 * k)), Ev(0, M + "Pp"),
                                                          Ev(1, neutral[1])])(M, pay, neutral)
            bd = {"*": {model: {"can_breakdown": True}}}
            sub = same if M == "V" else (lambda k, ty, v: (v - 2 * k) if (ty == 35 and v) else v)
            out.append(("breakdown-%s" % model, model, ("-b",), pre, cyc, E2, sub, ("%s-breakdown.prv" % model, "cpu.prv"), bd))
    return out


def run_for(ctx, build, scratch, prop, tier):
    """runs the families of `prop`; violations are reported through ctx (under the calling check's property)"""
    cat = catalog.load_events()
    gold = catalog.golden("enter_values.json")
    emu = build.tool("plain", "ovniemu")
    n = 20000 if tier == "quick" else (400000 if tier == "deep" else 200000)
    base = scratch.sub("soak")
    fams = families(prop, cat, gold)

    def one(f):
        name, model, flags, prefix, cyc, suffix, subst, prvs = f[:8]
        extra = f[8] if len(f) > 8 else None
        req = {"ovni": cat["ovni"]["version"]}
        req[model] = cat[model]["version"]
        system = emusrv.System(SPEC, require=req, extra_meta=extra)
        td = os.path.join(base, "w%d" % os.getpid())
        hist = list(prefix)
        starts = []
        t = sum(e[1] for e in hist[1:])
        for k in range(n):
            c = cyc(k)
            starts.append(t + c[0][1] if hist else 0)
            for e in c:
                t += e[1]
            hist += c
        end = t + 1
        hist += list(suffix)
        emusrv.materialise(system, td, hist, RELS)
        rc, out, err = emusrv.run_tool(emu, ["-l"] + list(flags) + [td], timeout=300)
        if rc != 0:
            lines = [l for l in err.split("\n") if "ERROR" in l][:2]
            return "the trace is refused (exit %r): %s" % (rc, " | ".join(lines)[:300]), len(hist)
        for pn in prvs:
            try:
                dur, nrows, lines = pv.parse_prv(open(os.path.join(td, pn)).read())
            except (OSError, pv.PvError) as e:
                return "%s: %s" % (pn, e), len(hist)
            per = {}
            k = 0
            for (tm, row, ty, val) in lines:
                if tm < starts[0] or tm >= end:
                    continue
                while k + 1 < n and tm >= starts[k + 1]:
                    k += 1
                per.setdefault(k, []).append((tm - starts[k], row, ty, subst(k, ty, val)))
            # cycles are compared two apart (some families alternate between two task types)
            for k in range(3, n):
                if per.get(k, []) != per.get(k - 2, []):
                    return ("%s: the records of cycle %d differ from those of cycle %d (time relative to the cycle, row, type, value): %r vs %r" % (
                        pn, k, k - 2, per.get(k, [])[:12], per.get(k - 2, [])[:12])), len(hist)
        return None, len(hist)
    for f, (msg, nev) in zip(fams, pmap(one, fams)):
        ctx.add(evaluations=1, transitions=nev, traces_validated_against_impl=1)
        ctx.part("aged-" + f[0], cycles=n, events=nev)
        if msg:
            cyc0 = [e.short() for e in f[4](0)]
            ctx.violation("aged state, family %s (%d cycles of %s): %s" % (f[0], n, cyc0, msg),
                          {"engine": "E6 real ovniemu (one long history)", "family": f[0], "cycles": n, "cycle": [e.line() for e in f[4](0)],
                           "prefix": [e.line() for e in f[3]], "flags": list(f[2])}, {"kind": "aged-state", "family": f[0]})
    return len(fams)
