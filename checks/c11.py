"""C11: concurrent tracing threads are isolated; process init/fini happen exactly once.
Stateless exploration of thread schedules of the real libovni (harness/sched_driver.c)
with iterative preemption bounding, plus a separate free-running ThreadSanitizer pass of
the same scenario bodies."""
import os, subprocess, shutil, re, time
from lib.common import Ctx, Build, Scratch, InfraError, REPO, pmap

SCEN = {"a": "three threads race ovni_proc_init (distinct looms); the winner traces a full thread life and finalises",
        "b": "process ready; two threads concurrently init / require / add_cpu / emit / flush / attr / free",
        "c": "two threads race ovni_proc_fini",
        "d": "ovni_thread_init racing ovni_proc_init",
        "e": "process ready; three threads concurrently init / require / add_cpu / emit / flush / attr / free"}


class Server:
    def __init__(self, exe, workdir):
        shutil.rmtree(workdir, ignore_errors=True)
        os.makedirs(workdir)
        self.p = subprocess.Popen([exe, workdir], stdin=subprocess.PIPE, stdout=subprocess.PIPE, stderr=subprocess.DEVNULL)
        l = self.p.stdout.readline()
        if not l.startswith(b"READY"):
            raise InfraError("sched_driver did not start: %r" % l)

    def run(self, sc, mode, prefix):
        self.p.stdin.write(("%s %s %s\n" % (sc, mode, " ".join(map(str, prefix)))).encode())
        self.p.stdin.flush()
        l = self.p.stdout.readline().decode()
        if not l.startswith("R "):
            raise InfraError("sched_driver answered %r" % l)
        parts = [x.strip() for x in l[2:].split("|")]
        pts = []
        for it in parts[1].split(";"):
            if it:
                n, re_, ch = it.split(",")
                pts.append((int(n), int(re_), int(ch)))
        return pts, parts[2], parts[3]

    def close(self):
        try:
            self.p.stdin.close()
            self.p.wait(timeout=5)
        except Exception:
            self.p.kill()


def explore_subtree(srv, sc, mode, root, bound, budget, t_end=None):
    """DFS below `root` (a choice prefix).  Returns (executions, violations, outcomes, maxpoints, capped)."""
    stack = [root]
    nexec = 0
    viol = []
    outcomes = set()
    maxp = 0
    capped = False
    while stack:
        prefix = stack.pop()
        pts, verdict, outcome = srv.run(sc, mode, prefix)
        nexec += 1
        maxp = max(maxp, len(pts))
        outcomes.add(outcome)
        if verdict != "ok":
            # replay twice before reporting: the same schedule must fail the same way
            v2 = srv.run(sc, mode, prefix)[1]
            v3 = srv.run(sc, mode, prefix)[1]
            if v2 == verdict and v3 == verdict:
                viol.append((prefix, verdict, outcome))
            else:
                viol.append((prefix, "NONDETERMINISTIC: %s / %s / %s" % (verdict, v2, v3), outcome))
            if len(viol) >= 3:
                break
            continue
        pre = 0
        pres = []
        for (n, re_, ch) in pts:
            pres.append(pre)
            if ch != 0 and re_:
                pre += 1
        taken = [p[2] for p in pts]
        for i in range(len(prefix), len(pts)):
            n, re_, ch = pts[i]
            if pres[i] + (1 if re_ else 0) > bound:
                continue
            for alt in range(1, n):
                stack.append(taken[:i] + [alt])
        if nexec >= budget or (t_end is not None and time.time() > t_end):
            capped = bool(stack)
            break
    return nexec, viol, outcomes, maxp, capped


_SRV = {}


def server_for(xe, scratch_dir):
    """one driver process per worker process and executable (starting one costs more than a hundred executions)"""
    k = (xe, os.getpid())
    if k not in _SRV:
        _SRV[k] = Server(xe, os.path.join(scratch_dir, "w%d-%d" % (os.getpid(), len(_SRV))))
    return _SRV[k]


def children_of(prefix, pts, bound):
    """the alternatives below one executed schedule that stay within the preemption bound"""
    pre = 0
    pres = []
    for (n, re_, ch) in pts:
        pres.append(pre)
        if ch != 0 and re_:
            pre += 1
    taken = [p[2] for p in pts]
    out = []
    for i in range(len(prefix), len(pts)):
        n, re_, ch = pts[i]
        if pres[i] + (1 if re_ else 0) > bound:
            continue
        for alt in range(1, n):
            out.append(taken[:i] + [alt])
    return out


def run(prop, tier):
    ctx = Ctx("C11", tier, "model_checking")
    scratch = Scratch("C11")
    try:
        build = Build()
        extra = ['-DVERIF_OVNI_C="%s"' % os.path.join(REPO, "src/rt/ovni.c")]
        exe = build.harness("plain", "sched_driver", ["sched_driver.c"], extra=extra, link_extra=["-ldl"])
        # the same driver with a 97-byte staging buffer: scenario b then flushes automatically inside ovni_ev_emit
        exe_small = build.harness("plain", "sched_driver_b97", ["sched_driver.c"], extra=extra + ["-DVERIF_BUFSZ=97"], link_extra=["-ldl"])
        bounds = [2] if tier == "quick" else [2, 3]
        completed_bound = 0
        for bound in bounds:
            caps_before = len(ctx.cov["caps_hit"])
            configs = [("a", "d", exe), ("b", "d", exe), ("b", "t", exe), ("c", "d", exe), ("c", "t", exe), ("d", "d", exe), ("b", "d", exe_small)]
            configs += [("a", "t", exe), ("d", "t", exe), ("b", "t", exe_small)]
            if bound == 2:
                configs += [("e", "d", exe)]      # three threads: bound 2 only
                if tier != "quick":
                    configs += [("e", "t", exe)]
            outer_bound = bound
            for (sc, mode, xe) in configs:
                # three threads in the quick tier: one preemption (two in the thorough tier)
                bound = 1 if (sc == "e" and tier == "quick") else outer_bound
                small = xe is exe_small
                if ctx.out_of_time(0.8):
                    ctx.cap("scenario %s/%s not started" % (sc, mode))
                    continue
                # root execution and first-level split
                srv0 = Server(xe, scratch.sub("srv0"))
                pts, verdict, outcome = srv0.run(sc, mode, [])
                srv0.close()
                if verdict != "ok":
                    ctx.violation("scenario %s (%s) mode %s, default schedule: %s" % (sc, SCEN[sc], mode, verdict),
                                  {"engine": "E2 sched_driver", "scenario": sc, "mode": mode, "schedule": [], "small_buffer": small}, {"kind": "schedule", "scenario": sc})
                    continue
                roots = []
                for i, (n, re_, ch) in enumerate(pts):
                    if (1 if re_ else 0) > bound:
                        continue
                    for alt in range(1, n):
                        roots.append([0] * i + [alt])
                per_budget = (40000 if tier == "quick" else 400000)
                t_end = ctx.t0 + ctx.deadline_s * 0.75

                def work(root):
                    return explore_subtree(server_for(xe, scratch.dir), sc, mode, root, bound, per_budget, t_end)

                def split(root):
                    # one more level in the parent's work list, so that a few heavy first-level subtrees do not serialise the search
                    pts, verdict, outcome = server_for(xe, scratch.dir).run(sc, mode, root)
                    if verdict != "ok":
                        return None       # left to explore_subtree (which replays it before reporting)
                    return (children_of(root, pts, bound), outcome, len(pts))
                total = 1
                outcomes = {outcome}
                maxp = len(pts)
                anycap = False
                roots2 = []
                for root, sp in zip(roots, pmap(split, roots)):
                    if sp is None:
                        roots2.append(root)
                        continue
                    total += 1
                    outcomes.add(sp[1])
                    maxp = max(maxp, sp[2])
                    roots2 += sp[0]
                roots = roots2
                for root, (nexec, viol, oc, mp, capped) in zip(roots, pmap(work, roots)):
                    total += nexec
                    outcomes |= oc
                    maxp = max(maxp, mp)
                    anycap = anycap or capped
                    for (prefix, verdict, outcome) in viol:
                        ctx.violation("scenario %s (%s) mode %s: %s [schedule %s]" % (sc, SCEN[sc], mode, verdict, prefix),
                                      {"engine": "E2 sched_driver", "scenario": sc, "mode": mode, "schedule": prefix, "outcome": outcome, "small_buffer": small},
                                      {"kind": "schedule", "scenario": sc})
                if anycap:
                    ctx.cap("scenario %s/%s: per-subtree budget of %d executions or the deadline reached; bound %d is complete for the scenarios listed before it" % (sc, mode, per_budget, bound))
                ctx.add(evaluations=total, transitions=total, states=total)
                ctx.part("sched-%s%s-%s-b%d" % (sc, "97" if small else "", mode, bound), what=SCEN[sc] + (" (97-byte staging buffer: automatic flush)" if small else ""), schedules=total, preemption_bound=bound, max_points=maxp,
                         distinct_outcomes=sorted(outcomes))
                ctx.sample({"scenario": sc, "mode": mode, "schedule": roots[len(roots) // 2] if roots else []})

            if len(ctx.cov["caps_hit"]) == caps_before and not ctx.nviol:
                completed_bound = outer_bound
        ctx.cov["preemption_bound_completed"] = completed_bound
        # ---- free-running ThreadSanitizer pass of the same bodies (supporting evidence for the choice of scheduling points)
        try:
            texe = build.harness("tsan", "sched_driver_tsan", ["sched_driver.c"], extra=extra + ["-DVERIF_NOSCHED"], link_extra=["-ldl"])
            texe_small = build.harness("tsan", "sched_driver_tsan_b97", ["sched_driver.c"], extra=extra + ["-DVERIF_NOSCHED", "-DVERIF_BUFSZ=97"], link_extra=["-ldl"])
            runs = 40 if tier == "quick" else 400
            jobs = [(sc, mode, k) for (sc, mode) in (("a", "d"), ("b", "d"), ("b", "t"), ("d", "d"), ("B", "d")) for k in range(runs // 4)]

            def trun(j):
                sc, mode, k = j
                d = os.path.join(scratch.dir, "t%d" % os.getpid())
                shutil.rmtree(d, ignore_errors=True)
                os.makedirs(d)
                r = subprocess.run([texe_small if sc == "B" else texe, d, sc.lower(), mode], stdout=subprocess.PIPE, stderr=subprocess.PIPE,
                                   env=dict(os.environ, TSAN_OPTIONS="exitcode=66:halt_on_error=0"), timeout=120)
                err = r.stderr.decode("latin1")
                races = re.findall(r"WARNING: ThreadSanitizer: data race.*?\n(?:.*\n){0,12}", err)
                return r.returncode, races[:1]
            nrace = 0
            for j, (rc, races) in zip(jobs, pmap(trun, jobs)):
                if races:
                    nrace += 1
                    if nrace <= 2:
                        ctx.violation("ThreadSanitizer reports a data race inside the library in scenario %s/%s: %s" % (j[0], j[1], races[0][:400]),
                                      {"engine": "TSan free-running", "scenario": j[0], "mode": j[1]}, {"kind": "data-race"})
            ctx.part("tsan", runs=len(jobs), runs_with_race=nrace)
        except InfraError as e:
            ctx.part("tsan", skipped=str(e)[:200])
        ctx.cov["traces_validated_against_impl"] = ctx.cov["evaluations"]
        ctx.cov["rule"] = ("every schedule with at most %d preemptions of the scenarios a-d (direct and OVNI_TMPDIR mode) on the real libovni (thorough: bound 2 completely first, then bound 3 as far as the deadline allows); scheduling points "
                           "at every atomic operation and every mkdir/open/write/fopen/fread/fwrite/remove/rmdir/opendir plus the API entries; scenario b also with a 97-byte staging buffer (automatic flush inside emit); each execution in a fresh process "
                           "with its own trace directory; oracle: exactly one proc_init/proc_fini returns, losers are refused, an admitted thread's stream.obs "
                           "and stream.json are byte-identical to what the same script writes when it runs alone; failures are replayed twice" % bounds[-1])
        ctx.cov["distinct_nontrivial"] = ctx.cov["states"]
        ctx.assumptions += ["sequentially consistent atomics (the library uses seq_cst only)", "unsynchronised accesses between scheduling points are "
                            "the ThreadSanitizer pass's job (separate, free-running)", "2-3 threads, one full thread life each"]
        return ctx.finish()
    finally:
        scratch.cleanup()
