"""C03: all streams are replayed as one time-ordered, loss-free sequence.
 (a) heap.h: every insert/pop sequence up to a length (in-process, structural invariants);
 (b) ovnidump on every set of small streams: permutation, per-stream order, non-decreasing clocks;
 (c) ovniemu with clock-offset tables: Paraver times = corrected - first corrected, per row;
 (d) every creation order of the stream directories gives byte-identical output."""
import os, itertools, subprocess, shutil, json
from lib.common import Ctx, Build, Scratch, InfraError, pmap
from lib import emusrv, obs, pv
from lib.emusrv import i32, i64

BIG = 3 * 10**9 + 1      # more than 2^31 ns away


def nondecr(values, maxlen, minlen=0):
    out = []
    for n in range(minlen, maxlen + 1):
        out += list(itertools.combinations_with_replacement(values, n))
    return out


def write_trace(td, streams, order=None, offsets=None, offsets_name="clock-offsets.txt"):
    """streams: list of (loom, pid, tid, [(mcv, clock, payload)])"""
    if os.path.exists(td):
        shutil.rmtree(td)
    os.makedirs(td)
    idxs = list(range(len(streams))) if order is None else order
    first_of_loom = {}
    for i in range(len(streams)):
        first_of_loom.setdefault(streams[i][0], i)
    for i in idxs:
        loom, pid, tid, evs = streams[i]
        body = b"".join(obs.enc(m, c, p) for (m, c, p) in evs)
        meta = obs.stream_meta(tid, pid, loom, cpus=[(0, 0)] if first_of_loom[loom] == i else None)
        obs.write_stream(td, obs.relpath(loom, pid, tid), meta, obs.HDR + body)
    if offsets is not None:
        with open(os.path.join(td, offsets_name), "w") as f:
            f.write("rank hostname offset_median offset_mean offset_std\n")
            for k, (host, off) in enumerate(sorted(offsets.items())):
                # the offset applied is the median column; mean and deviation differ from it as in every real ovnisync table
                f.write("%d %s %d %f %f\n" % (k, host, off, float(off) + 116.25 + k, 31.5))


def spelled(td, k):
    """the same trace directory named in another way on the command line: -> (argument, cwd)"""
    k %= 5
    if k == 1:
        return td + "/", None
    if k == 2:
        return "./" + os.path.basename(td), os.path.dirname(td)
    if k == 3:
        return os.path.dirname(td) + "/./" + os.path.basename(td) + "//", None
    if k == 4:
        return os.path.basename(td), os.path.dirname(td)
    return td, None


def check_dump(out, streams):
    """ovnidump oracle: returns None or message"""
    lines = [l for l in out.split("\n") if l.strip()]
    got = []
    for l in lines:
        k = l.split()
        if len(k) < 3:
            return "unparsable ovnidump line %r" % l
        got.append((int(k[0]), k[1], k[2]))
    exp = []
    for (loom, pid, tid, evs) in streams:
        rel = obs.relpath(loom, pid, tid)
        for (m, c, p) in evs:
            exp.append((c, m, rel))
    if sorted(got) != sorted(exp):
        return "ovnidump printed %d events, not exactly the %d events of the streams (lost/duplicated): %r" % (len(got), len(exp), got[:6])
    last = None
    pos = {}
    for (c, m, rel) in got:
        if last is not None and c < last:
            return "ovnidump output goes back in time: %d after %d" % (c, last)
        last = c
        k = pos.get(rel, 0)
        want = [e for e in exp if e[2] == rel][k]
        if (c, m) != want[:2]:
            return "order inside stream %s not preserved: got %s@%d, expected %s@%d" % (rel, m, c, want[1], want[0])
        pos[rel] = k + 1
    return None


def host_of(loom):
    return loom.split(".")[0]


def thread_rows(streams):
    order = sorted(range(len(streams)), key=lambda i: (streams[i][0], streams[i][1], streams[i][2]))
    return {i: r + 1 for r, i in enumerate(order)}


STATE_OF = {"OHx": 1, "OHp": 2, "OHr": 1, "OHe": 3, "OHc": 4}


def check_prv(text, streams, offsets):
    try:
        dur, nrows, lines = pv.parse_prv(text)
    except pv.PvError as e:
        return "thread.prv malformed: %s" % e
    rows = thread_rows(streams)
    corr = []
    for i, (loom, pid, tid, evs) in enumerate(streams):
        off = (offsets or {}).get(host_of(loom), 0)
        for (m, c, p) in evs:
            corr.append((c + off, rows[i], STATE_OF[m]))
    first = min(c for (c, _, _) in corr)
    exp = sorted((c - first, r, 4, v) for (c, r, v) in corr)
    got = sorted(l for l in lines if l[2] == 4)
    if got != exp:
        return "thread.prv state lines %r differ from corrected-time reference %r" % (got[:8], exp[:8])
    last = 0
    for l in lines:
        if l[0] < last:
            return "thread.prv time goes backwards"
        last = l[0]
    if dur != max(c for (c, _, _) in corr) - first:
        return "thread.prv duration %d, expected %d" % (dur, max(c for (c, _, _) in corr) - first)
    return None


def life(clocks, tid):
    """a legal thread life at the given clocks: x e | x c e | x p r e"""
    n = len(clocks)
    mcvs = {2: ["OHx", "OHe"], 3: ["OHx", "OHc", "OHe"], 4: ["OHx", "OHp", "OHr", "OHe"]}[n]
    return [(m, c, (i32(-1, tid) + i64(0)) if m == "OHx" else b"") for m, c in zip(mcvs, clocks)]


def run(prop, tier):
    ctx = Ctx("C03", tier, "model_checking")
    scratch = Scratch("C03")
    try:
        build = Build()
        # ---- (a) heap
        hexe = build.harness("plain", "heap_check", ["heap_check.c"], extra=["-O2"])
        hsan = build.harness("san", "heap_check", ["heap_check.c"])
        L = 9 if tier == "quick" else 11

        def hrun(first):
            r = subprocess.run([hexe, str(L), "3", str(first)], stdout=subprocess.PIPE, stderr=subprocess.PIPE)
            return r.returncode, r.stdout.decode()
        tot_seq = tot_ops = 0
        for first, (rc, out) in zip(range(4), pmap(hrun, list(range(4)))):
            for l in out.split("\n"):
                if l.startswith("FAIL"):
                    ctx.violation("heap.h: " + l, {"engine": "E4 heap_check", "args": [L, 3, first], "line": l}, {"kind": "heap"})
                if l.startswith("sequences="):
                    kv = dict(x.split("=") for x in l.split())
                    tot_seq += int(kv["sequences"])
                    tot_ops += int(kv["ops"])
            if rc not in (0, 1):
                ctx.violation("heap_check crashed (exit %d) for first op %d" % (rc, first), {"engine": "E4 heap_check", "args": [L, 3, first]}, {"kind": "heap-crash"})
        r = subprocess.run([hsan, "7", "3"], stdout=subprocess.PIPE, stderr=subprocess.PIPE)
        if r.returncode != 0:
            ctx.violation("heap.h under ASan/UBSan: %s %s" % (r.stdout.decode()[-300:], r.stderr.decode()[-300:]),
                          {"engine": "E4 heap_check san", "args": [7, 3]}, {"kind": "heap-san"})
        ctx.add(evaluations=tot_seq, transitions=tot_ops, states=tot_seq)
        ctx.part("heap", max_len=L, keys=3, sequences=tot_seq, operations=tot_ops)

        tools = build.tools("plain", ["ovnidump", "ovniemu", "ovnitop"])
        dump, emu, top = tools["ovnidump"], tools["ovniemu"], tools["ovnitop"]
        base = scratch.sub("t")

        # ---- (b) ovnidump on stream sets
        vals = [0, 1, BIG] if tier == "quick" else [0, 1, 5, BIG]
        shapes = nondecr(vals, 2 if tier == "quick" else 3)
        jobs = []
        for S in (1, 2, 3):
            for combo in itertools.product(shapes, repeat=S):
                if S == 3 and tier != "quick" and sum(len(c) for c in combo) > 7:
                    continue
                jobs.append(combo)
        small = [(0,), (1,), (0, 1), (1, 1)]
        for S in ((4, 5) if tier == "quick" else (4, 5, 6)):
            for combo in itertools.product(small if S < 6 else small[:3], repeat=S):
                jobs.append(combo)
        if tier != "quick":
            for combo in itertools.product(small[:2] + [(0, 0)], repeat=7):
                jobs.append(combo)

        def mk_streams(combo):
            st = []
            for i, clocks in enumerate(combo):
                evs = [("OB" + chr(ord("a") + k), c, b"") for k, c in enumerate(clocks)]
                st.append(("L%d" % (i % 2), 10 + i, 100 + i, evs))
            return st

        def one_dump(combo):
            td = os.path.join(base, "d%d" % os.getpid())
            st = mk_streams(combo)
            write_trace(td, st)
            # left-overs next to the stream files (editor backups, copies, notes) are not streams: every event still exactly once
            if (len(combo) + sum(len(c) for c in combo)) % 3 == 0:
                for k, (loom, pid, tid, evs) in enumerate(st):
                    d = os.path.join(td, obs.relpath(loom, pid, tid))
                    for extra in (("stream.json~", "stream.json.orig", "stream.obs.bak") if k % 2 == 0 else ("notes.txt", "stream.json.1", "xstream.json")):
                        src = os.path.join(d, "stream.obs" if "obs" in extra else "stream.json")
                        shutil.copy(src, os.path.join(d, extra))
            # (the directory is named in five ways in turn: plain, trailing slash, ./relative, with /./ and //, bare relative)
            arg, cwd = spelled(td, sum(len(c) for c in combo) + len(combo))
            rc, out, err = emusrv.run_tool(dump, ["-x", arg], cwd=cwd)
            if rc != 0:
                return "ovnidump %s exit %r: %s" % (arg, rc, err[-200:])
            msg = check_dump(out, st)
            if msg:
                return msg + " (trace directory given as %r)" % arg
            # ovnitop consumes the same merged sequence: every event counted exactly once
            rc, out, err = emusrv.run_tool(top, [arg], cwd=cwd)
            if rc != 0:
                return "ovnitop exit %r: %s" % (rc, err[-200:])
            got = {}
            for l in out.split("\n"):
                k = l.split()
                if len(k) == 2 and len(k[0]) == 3 and k[1].isdigit():
                    got[k[0]] = int(k[1])
            want = {}
            for (_, _, _, evs) in st:
                for (m, c, p) in evs:
                    want[m] = want.get(m, 0) + 1
            if got != want:
                return "ovnitop counts %r, the streams hold %r" % (got, want)
            return None
        for combo, msg in zip(jobs, pmap(one_dump, jobs)):
            ctx.add(evaluations=1, transitions=sum(len(c) for c in combo), traces_validated_against_impl=1)
            if msg:
                ctx.violation("ovnidump on streams %r: %s" % (combo, msg),
                              {"engine": "E6 ovnidump", "streams": [list(c) for c in combo]}, {"kind": "dump"})
        ctx.add(states=len(jobs))
        ctx.part("ovnidump", cases=len(jobs), clock_values=vals, max_streams=7 if tier != "quick" else 5)

        # ---- (c) ovniemu with offsets
        lvals = [0, 1, BIG] if tier == "quick" else [0, 1, 5, BIG]
        lshapes = [s for s in nondecr(lvals, 3 if tier == "quick" else 4, 2)]
        layouts = [("A", "A", "A"), ("h1", "h2", "h1"), ("node.1", "node.2", "other"), ("node.2", "other", "node.1")]
        offs = [None, {}, ]
        jobs = []
        for S in (1, 2, 3):
            combos = list(itertools.product(lshapes, repeat=S))
            if S == 3:
                combos = [c for c in combos if sum(len(x) for x in c) <= (7 if tier == "quick" else 8)]
            for combo in combos:
                for lay in (layouts[:2] if (tier == "quick" and S == 3) else layouts):
                    looms = lay[:S]
                    hosts = sorted(set(host_of(l) for l in looms))
                    otabs = [None]
                    for vec in itertools.product((-2, 0, 3), repeat=len(hosts)):
                        if any(vec):
                            otabs.append(dict(zip(hosts, vec)))
                    if tier == "quick":
                        otabs = otabs[:1] + otabs[1::3]
                    for ot in otabs:
                        jobs.append((combo, looms, ot, False))
                        first = min(c[0] + (ot or {}).get(host_of(looms[i]), 0) for i, c in enumerate(combo))
                        if first <= 0 and S <= 2:
                            # raw clocks stay >= 0 when shifted by -first
                            jobs.append((combo, looms, ot, True))

        # a thread that starts tracing more than one hour after the first one (same loom, hence the same clock)
        GATE = 3600 * 10 ** 9 + 5
        for first in ((0, 1), (1, 1)):
            for late in ((GATE, GATE + 1), (GATE, GATE + BIG)):
                jobs.append(((first, late), ("A", "A"), None, False))
                jobs.append(((late, first), ("A", "A"), None, False))

        # hosts whose clocks are hours apart (booted at different times) and an offset table that brings them together:
        # the corrected times are what counts, for the order and for every plausibility test
        for H in (2 * 3600 * 10 ** 9, 26 * 3600 * 10 ** 9 + 7):
            for a, b in (((0, 1), (H, H + 1)), ((0, 5), (H + 1, H + 1, H + 5)), ((H, H + 1), (0, 1))):
                far = "h2" if b[0] >= H else "h1"
                jobs.append(((a, b), ("h1", "h2"), {far: -H, ("h1" if far == "h2" else "h2"): 0}, False))
                jobs.append(((a, b, a), ("h1", "h2", "h1"), {far: -H, ("h1" if far == "h2" else "h2"): 3}, False))

        # many hosts: 40 looms (names of one and two digits), one thread each, a table with one offset per host; the events
        # of all streams interleave once the offsets are applied
        for variant in (0, 1):
            looms = tuple("n%d.1" % k for k in range(40))
            combo = tuple(((k * 7) % 40 + 40 * variant, (k * 7) % 40 + 45, 130 + k) for k in range(40))
            ot = {"n%d" % k: (3 * k if variant == 0 else -(k % 5)) for k in range(40)}
            jobs.append((combo, looms, ot, False))

        def one_emu(j):
            combo, looms, ot, zero = j
            td = os.path.join(base, "e%d" % os.getpid())
            # clocks are shifted by 1000 so that corrected clocks stay positive (a negative corrected
            # first clock is refused by the emulator; outside the quantified space, see DESIGN.md)
            shift = 1000
            if zero:
                # the first corrected clock is exactly 0 (a legal time origin)
                first = min(c[0] + (ot or {}).get(host_of(looms[i]), 0) for i, c in enumerate(combo))
                shift = -first
            st = [(looms[i], 10 + i, 100 + i, life([shift + x for x in c], 100 + i)) for i, c in enumerate(combo)]
            # alternate between the default file name and -c
            use_c = (len(combo) + len(combo[0])) % 2 == 1 and ot is not None
            write_trace(td, st, offsets=ot, offsets_name="offs.txt" if use_c else "clock-offsets.txt")
            arg, cwd = spelled(td, sum(len(c) for c in combo) + len(looms[0]))
            args = (["-c", os.path.join(td, "offs.txt")] if use_c else []) + [arg]
            # "any number of streams": with 40 streams the tools may hold only 30 descriptors at a time (what thousands of
            # streams are to the usual limit of 1024); a loaded stream needs none
            nofile = 30 if len(combo) >= 40 else None
            rc, out, err = emusrv.run_tool(emu, args, cwd=cwd, nofile=nofile)
            if rc != 0:
                e = [l for l in err.split("\n") if "ERROR" in l]
                e = e[:2] + [l for l in e[2:] if "clock gate" in l][:1]
                return "ovniemu rejected a sorted trace%s (exit %r): %s" % (" with %d descriptors allowed" % nofile if nofile else "", rc, " | ".join(e))
            msg = check_prv(open(os.path.join(td, "thread.prv")).read(), st, ot)
            if msg is None and nofile:
                for tool in (dump, top):
                    rc, out, err = emusrv.run_tool(tool, [arg], cwd=cwd, nofile=nofile)
                    if rc != 0:
                        return "%s exit %r on %d streams with %d descriptors allowed: %s" % (os.path.basename(tool).split("-")[0], rc, len(combo), nofile, err[-160:])
            return msg
        for j, msg in zip(jobs, pmap(one_emu, jobs)):
            ctx.add(evaluations=1, transitions=sum(len(c) for c in j[0]), traces_validated_against_impl=1)
            if msg:
                m_ = {"kind": "emu-offsets"}
                firsts = [c[0] for c in j[0] if c]
                if "clock gate" in msg and len(set(j[1])) == 1 and j[2] is None and max(firsts) - min(firsts) > 3600 * 10 ** 9:
                    # (only the documented one-hour gate between threads of one loom; a gate that fires on closer streams is not it)
                    m_["cause"] = "clock-gate-same-loom"
                ctx.violation("ovniemu streams %r looms %r offsets %r%s: %s" % (j[0], j[1], j[2], " (first corrected clock 0)" if j[3] else "", msg),
                              {"engine": "E6 ovniemu", "streams": [list(c) for c in j[0]], "looms": list(j[1]), "offsets": j[2], "first_corrected_clock_zero": j[3]},
                              m_)
        ctx.add(states=len(jobs))
        ctx.part("ovniemu-offsets", cases=len(jobs), loom_layouts=layouts)

        # ---- (d) directory creation order
        jobs = []
        for fam in (0, 1, 2):
            for combo in itertools.product([(0, 1), (1, 1), (0, 0)], repeat=3):
                jobs.append((fam, combo))

        def one_perm(j):
            fam, combo = j
            outs = set()
            for order in itertools.permutations(range(3)):
                td = os.path.join(base, "p%d" % os.getpid())
                if fam in (0, 2):
                    st = [(("B", "A", "B")[i], 10 + i, 100 + (7 * i) % 3, life([1000 + x for x in c], 100 + (7 * i) % 3)) for i, c in enumerate(combo)]
                else:
                    # the same pid and tid in two looms (containers, several nodes): only the loom tells the streams apart
                    st = [(("A", "B", "B")[i], (10, 10, 11)[i], 100, life([1000 + x for x in c], 100)) for i, c in enumerate(combo)]
                write_trace(td, st, order=list(order))
                if fam == 2 and order[0] != 0:
                    # streams gathered from several places: a loom directory, a process directory or a thread directory of the
                    # trace is a symbolic link to where the files really are (the plain layout is among the six orders too)
                    ext = td + "-ext"
                    shutil.rmtree(ext, ignore_errors=True)
                    os.makedirs(ext)
                    rel = obs.relpath(st[order[0]][0], st[order[0]][1], st[order[0]][2])
                    what = [rel, os.path.dirname(rel), os.path.dirname(os.path.dirname(rel))][order[1] % 3]
                    shutil.move(os.path.join(td, what), os.path.join(ext, "moved"))
                    os.symlink(os.path.join(ext, "moved"), os.path.join(td, what))
                rc, out, err = emusrv.run_tool(emu, [td])
                blob = [rc]
                for n in ("thread.prv", "cpu.prv", "thread.row", "cpu.row"):
                    p = os.path.join(td, n)
                    blob.append(open(p).read() if os.path.exists(p) else None)
                outs.add(json.dumps(blob))
            return len(outs)
        for (fam, combo), n in zip(jobs, pmap(one_perm, jobs)):
            ctx.add(evaluations=6, transitions=6, traces_validated_against_impl=6)
            if n != 1:
                ctx.violation("output depends on the creation order of the stream directories for streams %r%s (%d distinct outputs)" % (
                    combo, (" (same pid/tid in two looms)", " (a loom, process or thread directory reached through a symbolic link)")[fam - 1] if fam else "", n),
                    {"engine": "E6 ovniemu", "streams": [list(c) for c in combo], "check": "creation-order", "family": fam}, {"kind": "dir-order"})
        ctx.part("creation-order", contents=len(jobs), orders_each=6)
        ctx.sample({"ovnidump_streams": [[0, 1], [1, BIG], []]})
        ctx.sample({"ovniemu": {"streams": [[0, 1, 5], [1, BIG]], "looms": ["node.1", "node.2"], "offsets": {"node": 3}}})
        ctx.cov["rule"] = ("heap: every sequence of insert(0..2)/pop up to length 9/11; ovnidump: every set of <= 3 streams of <= 2/3 events with clocks in "
                           "{0,1,(5),3e9+1} plus 4-7 streams of tiny shapes; ovniemu: thread life-cycles on <= 3 streams x loom/host layouts (incl. two looms "
                           "of one host) x every non-trivial offset vector over {-2,0,3}; the same with the first corrected clock exactly 0; two threads of one loom starting more than an hour apart; all 6 creation orders of 2 x 27 three-stream traces (distinct pid/tid; the same pid/tid in two looms)")
        ctx.cov["distinct_nontrivial"] = ctx.cov["states"]
        ctx.assumptions += ["<= 7 streams; offsets far from int64 overflow; equal corrected clocks across streams may be replayed in any order"]
        return ctx.finish()
    finally:
        scratch.cleanup()
