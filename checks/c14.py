"""C14: version gating follows semantic versioning in the runtime and in the emulator."""
import os, re, itertools, subprocess, json, shutil
from lib.common import Ctx, Build, Scratch, InfraError, pmap, plan_of
from lib import emusrv, catalog, obs
from lib.emusrv import Ev, i32, i64

WELL = re.compile(r"^(0|[1-9][0-9]*)\.(0|[1-9][0-9]*)\.(0|[1-9][0-9]*)(-.*)?$")
LAX = re.compile(r"^([0-9]+)\.([0-9]+)\.([0-9]+)(-.*)?$")     # leading zeros: not judged


def ref_parse(s):
    """-> tuple or None (malformed) or 'either' (form not fixed by the documentation)"""
    m = WELL.match(s)
    if m:
        t = tuple(int(m.group(i)) for i in (1, 2, 3))
        if max(t) > 2**31 - 1:
            return "huge"        # beyond int: may be refused, must never be taken for another number
        return t
    if LAX.match(s):
        return "either"
    return None


def compatible(w, h):
    return w[0] == h[0] and w[1] <= h[1]


PROBE = {"nosv": ("VAr", "VAR"), "nanos6": ("6W[", "6W]"), "nodes": ("DR[", "DR]"), "mpi": ("MW[", "MW]"),
         "tampi": ("TCi", "TCI"), "openmp": ("PA[", "PA]"), "kernel": ("KCO", "KCI")}


def run(prop, tier):
    ctx = Ctx("C14", tier, "model_checking")
    tier = plan_of("C14", tier)
    ctx.cov["plan"] = tier
    scratch = Scratch("C14")
    try:
        build = Build()
        exe = build.harness("san", "version_server", ["version_server.c"])
        emu = build.tool("plain", "ovniemu")
        cat = catalog.load_events()
        p = subprocess.Popen([exe], stdin=subprocess.PIPE, stdout=subprocess.PIPE,
                             env=dict(os.environ, ASAN_OPTIONS="detect_leaks=0"))

        def ask(line):
            p.stdin.write((line + "\n").encode())
            p.stdin.flush()
            return p.stdout.readline().decode().strip().split(" ")
        # (a1) compatibility relation on all pairs of triples over {0,1,2}^3
        dom = list(itertools.product(range(3), repeat=3))
        n = 0
        for w in dom:
            for h in dom:
                r = ask("C %d %d %d %d %d %d" % (w + h))
                n += 1
                if not compatible(w, h):
                    ctx.add(refusing_side=1)
                if (r[1] == "1") != compatible(w, h):
                    ctx.violation("version_is_compatible(want=%s, have=%s) = %s, semver says %s" % (w, h, r[1], compatible(w, h)),
                                  {"engine": "E4 version_server", "query": "C", "want": w, "have": h}, {"kind": "compat"})
        ctx.add(evaluations=n, transitions=n, states=len(dom))
        ctx.part("compat-relation", pairs=n)
        # (a2) version_parse on every string of length <= L over a small alphabet
        L = 6 if tier == "quick" else (8 if tier == "deep" else 7)
        alpha = "01.-a"
        strings = [""] + ["".join(t) for k in range(1, L + 1) for t in itertools.product(alpha, repeat=k)]
        strings += ["1.2.3-rc1", "10.20.30", "1.2.3.4", "1..2.3", "1. 11.0", " 1.2.3", "+1.2.3", "1.2.3 ", "1.2.-3", "1.+2.3", "99999999999.1.1",
                    "1.2.3-", "1.2", "1", "1.O.O", "1.2.3rc", "a.b.c", "1.2.3\t", "0x1.2.3", "1.2.3.", ".1.2.3", "1,2,3"]
        # components beyond int / long: refusing is fine, wrapping around to another number is not
        for big in (2**31, 2**31 + 1, 2**32, 2**32 + 1, 2 * 2**32 + 2, 2**63, 2**64 + 1):
            strings += ["%d.0.0" % big, "1.%d.0" % big, "1.2.%d" % big, "%d.%d.%d" % (big, big, big)]
        nmal = 0
        for s in strings:
            r = ask("P " + s)
            want = ref_parse(s)
            ctx.add(evaluations=1, transitions=1)
            if want == "either":
                continue
            if want == "huge":
                ctx.add(refusing_side=1)
                if r[1] == "0":
                    ctx.violation("version_parse(%r) succeeds with %s: a component beyond the int range was silently reduced" % (s, r[2:]),
                                  {"engine": "E4 version_server", "query": "P", "string": s}, {"kind": "parse-wraps", "string": s})
                continue
            if want is None:
                nmal += 1
                ctx.add(refusing_side=1)
                if r[1] == "0":
                    ctx.violation("version_parse accepts the malformed string %r as %s" % (s, r[2:]),
                                  {"engine": "E4 version_server", "query": "P", "string": s}, {"kind": "parse-accepts-malformed", "string": s})
            else:
                if r[1] != "0" or tuple(int(x) for x in r[2:5]) != want:
                    ctx.violation("version_parse(%r) -> %s, expected %s" % (s, r[1:], want),
                                  {"engine": "E4 version_server", "query": "P", "string": s}, {"kind": "parse-wrong"})
        ctx.part("parse", strings=len(strings), malformed=nmal, alphabet=alpha, max_len=L)
        # (b) runtime check against the library version
        lib = ask("L")[1]
        lv = tuple(int(x) for x in lib.split("-")[0].split("."))
        nb = 0
        for dm, dn, pz in itertools.product((-1, 0, 1), (-1, 0, 1), (0, lv[2], lv[2] + 1)):
            w = (lv[0] + dm, lv[1] + dn, pz)
            if min(w) < 0:
                continue
            for suffix in ("", "-rc1"):
                s = "%d.%d.%d%s" % (w + (suffix,))
                r = ask("V " + s)
                nb += 1
                want = "ok" if compatible(w, lv) else "refused"
                if r[1] != want:
                    ctx.violation("ovni_version_check_str(%r) with library %s: %s, expected %s" % (s, lib, r[1], want),
                                  {"engine": "E4 version_server", "query": "V", "string": s, "library": lib}, {"kind": "runtime-check"})
        for k in (2**31, 2**32, 2 * 2**32, 3 * 2**32, 2**64):
            for d in (-1, 0, 1):
                for s in ("%d.%d.0" % (lv[0] + d + k, lv[1]), "%d.%d.0" % (lv[0], max(lv[1] + d, 0) + k), "%d.%d.0" % (lv[0] + k, k)):
                    r = ask("V " + s)
                    nb += 1
                    ctx.add(refusing_side=1)
                    if r[1] != "refused":
                        ctx.violation("ovni_version_check_str(%r) with library %s: %s, but the major differs or the minor is greater" % (s, lib, r[1]),
                                      {"engine": "E4 version_server", "query": "V", "string": s, "library": lib}, {"kind": "runtime-check-huge"})
        for s in ["", "1", "1.2", "a.b.c", "1.2.3rc", "1.O.O", "-1.0.0", "1.2.3.4", "1..2.3", "..", "1.2.", "x"]:
            r = ask("V " + s)
            nb += 1
            if ref_parse(s) is None and r[1] != "refused":
                ctx.violation("ovni_version_check_str accepts the malformed string %r (%s)" % (s, r[1]),
                              {"engine": "E4 version_server", "query": "V", "string": s}, {"kind": "runtime-malformed", "string": s})
        # the verdict belongs to each request, not to the process: every pair of requests one after the other in one process
        # (a program and a second runtime in it may both check); the k-th call returns iff all up to it are compatible
        singles = []
        for dm, dn in itertools.product((-1, 0, 1), (-1, 0, 1)):
            w = (lv[0] + dm, lv[1] + dn, 0)
            if min(w) >= 0:
                singles.append(("%d.%d.%d" % w, compatible(w, lv)))
        singles += [("1.x.0", False), ("", False), ("%d.%d.0" % (lv[0] + 2**32, lv[1]), False)]
        seqs = [[a, b] for a in singles for b in singles]
        if tier != "quick":
            good = [x for x in singles if x[1]]
            seqs += [[a, b, c] for a in good for b in good for c in singles]
        for sq in seqs:
            r = ask("W " + "|".join(x[0] for x in sq))
            nb += 1
            nret = 0
            for x in sq:
                if not x[1]:
                    break
                nret += 1
            want = ("ok" if nret == len(sq) else "refused", nret)
            if nret < len(sq):
                ctx.add(refusing_side=1)
            if (r[1], int(r[2])) != want:
                ctx.violation("ovni_version_check_str called with %r one after the other in one process (library %s): %s after %s calls returned, expected %s after %d" % (
                    [x[0] for x in sq], lib, r[1], r[2], want[0], want[1]),
                    {"engine": "E4 version_server", "query": "W", "strings": [x[0] for x in sq], "library": lib}, {"kind": "runtime-check-sequence"})
        ctx.add(evaluations=nb, transitions=nb)
        ctx.part("runtime-check", library=lib, queries=nb, call_sequences=len(seqs))
        p.stdin.close()
        p.wait()
        # (c) emulator: required model versions in the +-1 cube around the emulator's version
        spec = [{"name": "A", "cpus": [(0, 0)], "procs": [{"pid": 100, "threads": [101, 102]}]}]
        base = scratch.sub("emu")
        X = [Ev(0, "OHx", i32(0, 101) + i64(0)), Ev(1, "OHx", i32(-1, 102) + i64(0))]
        E = [Ev(0, "OHe"), Ev(1, "OHe")]
        rels = ["loom.A/proc.100/thread.101", "loom.A/proc.100/thread.102"]
        jobs = []
        for model, d in cat.items():
            have = tuple(int(x) for x in d["version"].split("."))
            for dm, dn, dp in itertools.product((-1, 0, 1), repeat=3):
                w = (have[0] + dm, have[1] + dn, have[2] + dp)
                if min(w) < 0:
                    continue
                jobs.append(("version", model, "%d.%d.%d" % w, compatible(w, have), None))
                if dp == 0:
                    # forcing all models on does not switch the version check off
                    jobs.append(("version", model, "%d.%d.%d" % w, compatible(w, have), ("-a",)))
            for bad in ("1.x.0", "1", "", "1.2.3rc"):
                jobs.append(("version", model, bad, False, None))
                jobs.append(("version", model, bad, False, ("-a",)))
            # a requirement whose version is not a string at all is malformed too (and is not "no requirement")
            for bad in (99, 1.5, True, None, {"x": 1}, [d["version"]]):
                jobs.append(("version", model, bad, False, None))
                jobs.append(("version", model, bad, False, ("-a",)))
            for k in (2**31, 2**32, 2 * 2**32):
                jobs.append(("version", model, "%d.%d.%d" % (have[0] + k, have[1], have[2]), False, None))
                jobs.append(("version", model, "%d.%d.%d" % (have[0], k, have[2]), False, None))
                if have[1] > 0:
                    jobs.append(("version", model, "%d.%d.%d" % (have[0], have[1] - 1 + k, have[2]), False, None))
            # second stream requires something else than the first (checked for every stream, in any order)
            ok_v = d["version"]
            bad_v = "%d.%d.%d" % (have[0], have[1] + 1, 0)
            jobs.append(("mixed", model, (ok_v, bad_v), False, None))
            jobs.append(("mixed", model, (bad_v, ok_v), False, None))
            # every kind of incompatible requirement next to a compatible one, in both orders (the verdict on one stream
            # must not colour the next)
            for other in ("%d.0.0" % (have[0] + 1), "%d.%d.0" % (have[0] + 1, have[1]), "1.x") + (("%d.0.0" % (have[0] - 1), "%d.%d.0" % (have[0] - 1, have[1] + 5)) if have[0] > 0 else ()):
                jobs.append(("mixed", model, (ok_v, other), False, None))
                jobs.append(("mixed", model, (other, ok_v), False, None))
                jobs.append(("mixed", model, ("%d.0.0" % have[0], other), False, None))
            jobs.append(("mixed", model, (ok_v, "%d.0.0" % have[0]), True, None))
            if model != "ovni":
                # the model is required by one stream only (either one): it is enabled for the whole trace
                jobs.append(("only", model, 0, True, None))
                jobs.append(("only", model, 1, True, None))
                # the same with the requiring stream's directory reached through a symbolic link; and an incompatible
                # requirement behind a link is still seen
                jobs.append(("only", model, 1, True, ("link",)))
                jobs.append(("mixed", model, (ok_v, bad_v), False, ("link",)))
        # several processes and looms: the odd requirement (incompatible, malformed, or the only one that names the model) sits
        # in each of the streams in turn
        spec3 = [{"name": "A", "cpus": [(0, 0), (1, 1)], "procs": [{"pid": 100, "threads": [101]}, {"pid": 200, "threads": [201]}]},
                 {"name": "B", "cpus": [(0, 0)], "procs": [{"pid": 300, "threads": [301, 302]}]}]
        rels3 = ["loom.A/proc.100/thread.101", "loom.A/proc.200/thread.201", "loom.B/proc.300/thread.301", "loom.B/proc.300/thread.302"]
        for model, d in cat.items():
            have = tuple(int(x) for x in d["version"].split("."))
            bad_v = "%d.%d.%d" % (have[0], have[1] + 1, 0)
            for pos in range(4):
                jobs.append(("mixed3", model, (pos, bad_v), False, None))
                if have[0] > 0:
                    jobs.append(("mixed3", model, (pos, "%d.0.0" % (have[0] - 1)), False, None))
                jobs.append(("mixed3", model, (pos, "%d.0.0" % (have[0] + 1)), False, None))
                jobs.append(("mixed3", model, (pos, "1.x"), False, None))
                jobs.append(("mixed3", model, (pos, bad_v), False, ("-a",)))
                if model != "ovni":
                    jobs.append(("only3", model, pos, True, None))
        # all subsets of required models x one probe per model (+ forced -a)
        names = sorted(PROBE)
        subsets = list(itertools.chain.from_iterable(itertools.combinations(names, k) for k in range(len(names) + 1)))
        if tier == "quick":
            subsets = [s for s in subsets if len(s) in (0, 1, 6, 7)]
        for sub in subsets:
            for m in names:
                jobs.append(("subset", m, sub, m in sub, ()))
        for m in names:
            jobs.append(("subset", m, (), True, ("-a",)))
        # events whose model byte belongs to no model of the emulator are events of a model that is not enabled, whatever
        # the streams require and also when all models are forced on
        owned = set(d["char"] for d in cat.values())
        for ch in "ZzQ0!":
            if ch not in owned:
                for sub, fl in (((), ()), (tuple(names), ()), ((), ("-a",))):
                    jobs.append(("nomodel", ch + "A[", sub, False, fl))

        def one(j):
            kind, model, arg, want, flags = j
            td = os.path.join(base, "w%d" % os.getpid())
            if kind == "version":
                req = {"ovni": cat["ovni"]["version"]}
                req[model] = arg
                system = emusrv.System(spec, require=req)
                emusrv.materialise(system, td, X + E, {0: rels[0], 1: rels[1]})
            elif kind == "mixed":
                system = emusrv.System(spec, require={"ovni": cat["ovni"]["version"]})
                emusrv.materialise(system, td, X + E, {0: rels[0], 1: rels[1]})
                for rel, v in zip(rels, arg):
                    pth = os.path.join(td, rel, "stream.json")
                    meta = json.load(open(pth))
                    meta["ovni"]["require"][model] = v
                    json.dump(meta, open(pth, "w"))
            elif kind in ("mixed3", "only3"):
                X3 = [Ev(0, "OHx", i32(0, 101) + i64(0)), Ev(1, "OHx", i32(1, 201) + i64(0)), Ev(2, "OHx", i32(0, 301) + i64(0)), Ev(3, "OHx", i32(-1, 302) + i64(0))]
                E3 = [Ev(k, "OHe") for k in range(4)]
                so = {k: rels3[k] for k in range(4)}
                if kind == "mixed3":
                    system = emusrv.System(spec3, require={"ovni": cat["ovni"]["version"], model: cat[model]["version"]})
                    emusrv.materialise(system, td, X3 + E3, so)
                    pth = os.path.join(td, rels3[arg[0]], "stream.json")
                    meta = json.load(open(pth))
                    meta["ovni"]["require"][model] = arg[1]
                    json.dump(meta, open(pth, "w"))
                else:
                    system = emusrv.System(spec3, require={"ovni": cat["ovni"]["version"], model: cat[model]["version"]})
                    a, b = PROBE[model]
                    emusrv.materialise(system, td, X3 + [Ev(arg, a), Ev(arg, b)] + E3, so)
                    for k in range(4):
                        if k != arg:
                            pth = os.path.join(td, rels3[k], "stream.json")
                            meta = json.load(open(pth))
                            del meta["ovni"]["require"][model]
                            json.dump(meta, open(pth, "w"))
            elif kind == "only":
                system = emusrv.System(spec, require={"ovni": cat["ovni"]["version"], model: cat[model]["version"]})
                a, b = PROBE[model]
                emusrv.materialise(system, td, X + [Ev(0, a), Ev(0, b)] + E, {0: rels[0], 1: rels[1]})
                pth = os.path.join(td, rels[1 - arg], "stream.json")
                meta = json.load(open(pth))
                del meta["ovni"]["require"][model]
                json.dump(meta, open(pth, "w"))
            else:
                req = {"ovni": cat["ovni"]["version"]}
                for s in arg:
                    req[s] = cat[s]["version"]
                system = emusrv.System(spec, require=req)
                evs = [Ev(0, model)] if kind == "nomodel" else [Ev(0, PROBE[model][0]), Ev(0, PROBE[model][1])]
                emusrv.materialise(system, td, X + evs + E, {0: rels[0], 1: rels[1]})
            eflags = [f for f in (flags or ()) if f != "link"]
            if flags and "link" in flags:
                # the second stream's directory lives elsewhere and is reached through a symbolic link
                ext = td + "-ext"
                shutil.rmtree(ext, ignore_errors=True)
                os.makedirs(ext)
                shutil.move(os.path.join(td, rels[1]), os.path.join(ext, "thread.102"))
                os.symlink(os.path.join(ext, "thread.102"), os.path.join(td, rels[1]))
            rc, out, err = emusrv.run_tool(emu, ["-l"] + eflags + [td])
            ok = (rc == 0 and "emulation finished ok" in err)
            lines = [l for l in err.split("\n") if "ERROR" in l][:1]
            return rc, ok, " ".join(lines)
        for j, (rc, ok, msg) in zip(jobs, pmap(one, jobs)):
            kind, model, arg, want, flags = j
            ctx.add(evaluations=1, transitions=1, traces_validated_against_impl=1)
            if not want:
                ctx.add(refusing_side=1)
            if rc not in (0, 1):
                ctx.violation("ovniemu died (exit %r) for %s %s %r" % (rc, kind, model, arg),
                              {"engine": "real ovniemu", "kind": kind, "model": model, "arg": arg}, {"kind": "crash"})
            elif ok != want:
                ctx.violation("emulator %s a trace (%s: model %s, %r, flags %s) that must be %s (%s)" % (
                    "accepts" if ok else "rejects", kind, model, arg, flags, "accepted" if want else "rejected", msg),
                    {"engine": "real ovniemu", "kind": kind, "model": model, "arg": arg, "flags": flags}, {"kind": "emu-" + kind, "model": model})
        ctx.add(states=len(jobs))
        ctx.part("emulator", runs=len(jobs), subsets=len(subsets))
        # (d) end to end through the runtime: the program states the version it needs with ovni_thread_require()
        # (for the base model on top of the library's own request); the emulator must then decide on that version
        from checks import rt as _rt
        rexe = _rt.build_driver(build, None, variant="plain")
        rbase = scratch.sub("rt")
        rjobs = []
        for model, d in cat.items():
            have = tuple(int(x) for x in d["version"].split("."))
            for dm, dn in itertools.product((-1, 0, 1), repeat=2):
                w = (have[0] + dm, have[1] + dn, 0)
                if min(w) < 0:
                    continue
                rjobs.append((model, "%d.%d.%d" % w, compatible(w, have)))

        def one_rt(j):
            model, v, want = j
            cd = os.path.join(rbase, "r%d" % os.getpid())
            rc, err, log = _rt.run_case(rexe, cd, ["R:%s:%s" % (model, v), "X", "E"])
            if "DONE" not in log:
                return None, "driver did not finish: %s" % err[-200:]
            rc2, out, err2 = emusrv.run_tool(emu, ["-l", os.path.join(cd, "trace")])
            ok = (rc2 == 0 and "emulation finished ok" in err2)
            req = json.load(open(os.path.join(_rt.stream_path(cd), "stream.json")))["ovni"]["require"].get(model)
            return ok, "metadata says %r" % req
        for (model, v, want), (ok, info) in zip(rjobs, pmap(one_rt, rjobs)):
            ctx.add(evaluations=1, transitions=1, traces_validated_against_impl=1)
            if not want:
                ctx.add(refusing_side=1)
            if ok is None:
                ctx.violation("runtime: a program requiring %s %s could not be traced: %s" % (model, v, info),
                              {"engine": "E1 rt_driver + real ovniemu", "model": model, "version": v}, {"kind": "rt-require"})
            elif ok != want:
                ctx.violation("a program that requires %s %s (emulator provides %s): the emulator %s the trace (%s)" % (
                    model, v, cat[model]["version"], "accepts" if ok else "rejects", info),
                    {"engine": "E1 rt_driver + real ovniemu", "model": model, "version": v}, {"kind": "rt-require", "model": model})
        ctx.part("runtime-require", runs=len(rjobs))
        ctx.sample({"compat": {"want": [1, 2, 0], "have": [1, 1, 2], "expected": False}})
        ctx.sample({"emulator_trace": "two threads; metadata requires nosv 2.5.0 with emulator model 2.4.0 -> must be rejected"})
        ctx.cov["rule"] = ("version_is_compatible on all pairs of triples over {0,1,2}^3; version_parse on every string of length <= 6/7 over {0,1,.,-,a} "
                           "against a regular-expression reference (leading zeros not judged); ovni_version_check_str on the +-1 cube around the "
                           "library version; real ovniemu on traces requiring every version in the +-1 cube of each of the 8 models, mixed "
                           "requirements across streams in both orders, a model required by one stream only (also behind a symbolic link), the odd requirement in each stream of a trace with two looms and three processes, malformed strings and versions that are not strings, the same with -a, components beyond the int range, and subsets of required models x one probe event per model (+ -a)")
        # non-trivial = cases on the refusing side of the relation (incompatible pair, malformed string, model not required)
        ctx.cov["distinct_nontrivial"] = ctx.cov.get("refusing_side", 0)
        return ctx.finish()
    finally:
        scratch.cleanup()
