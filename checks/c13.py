"""C13: every accepted trace yields well-formed, self-consistent Paraver output.
Deterministic sweep over system configurations x models x event histories, each
run through the real ovniemu built from the tree; all .prv/.pcf/.row files are
parsed and validated independently."""
import os, itertools, json, glob
from lib.common import Ctx, Build, Scratch, InfraError, pmap, REPO, plan_of
from lib import emusrv, catalog, pv, obs
from lib.emusrv import Ev, i32, i64, u32

# emulator-defined state types: every non-zero value printed must have a label
LABELLED = {4, 6, 7, 13, 20, 25, 30, 37, 39, 45, 50, 16, 40, 11, 36, 17, 41}


EDGE_LABELS = []


def configs(tier):
    out = []
    big = (1, 2, 3) if tier != "quick" else (1, 2)
    for nl, np_, nt, nc, rank in itertools.product(big, big, (1, 2), big, (False, True)):
        if tier == "quick" and (nl, np_, nt, nc, rank) not in ((1, 1, 1, 1, False), (2, 2, 2, 2, True), (2, 1, 2, 1, False),
                                                              (1, 2, 1, 2, True), (1, 1, 1, 2, False)):
            continue
        spec = []
        r = 0
        for li in range(nl):
            procs = []
            for pi in range(np_):
                pid = 100 * (li + 1) + 10 * pi
                # ranks descend with the loom name so that rank order differs from name order
                rk = (nl - 1 - li) * np_ + (np_ - 1 - pi) if rank else None
                procs.append({"pid": pid, "app": 1 + pi, "rank": rk, "nranks": (nl * np_ if rank else None),
                              "threads": [pid + 1 + ti for ti in range(nt)]})
            # physical ids far from the positions (a job pinned to cores 20.., 40..): values that name a CPU must use the position
            spec.append({"name": "n%d" % li, "cpus": [(ci, (nc - 1 - ci) + 20 * (li + 1)) for ci in range(nc)], "procs": procs})
        out.append(spec)
    # one large machine: 11 looms (names of one and two digits) x 3 processes x 4 threads, 12 CPUs per loom, ranks
    spec = []
    for li in range(11):
        procs = []
        for pi in range(3):
            pid = 1000 * (li + 1) + 10 * pi
            procs.append({"pid": pid, "app": 1 + pi, "rank": 3 * (10 - li) + (2 - pi), "nranks": 33, "threads": [pid + 1 + ti for ti in range(4)]})
        spec.append({"name": "node%d" % li, "cpus": [(ci, (11 - ci) + 20 * (li + 1)) for ci in range(12)], "procs": procs})
    out.append(spec)
    return out


def order_configs(tier):
    """Row-order clause: 2 looms x 2 processes, every assignment of the ranks 0..3 to the four processes (and no ranks at all),
    with PIDs and TIDs whose string order (proc.10 < proc.9, thread.100 < thread.99) differs from the numeric one, so that stream enumeration order,
    PID order, rank order and loom-name order all disagree somewhere."""
    out = []
    perms = [None] + list(itertools.permutations(range(4)))
    for pids in (((9, 10), (10, 9)), ((10, 9), (9, 10))) if tier != "quick" else (((9, 10), (10, 9)),):
        for perm in perms:
            spec = []
            k = 0
            for li, lname in enumerate(("a", "z")):
                procs = []
                for pi in range(2):
                    pid = pids[li][pi] + 100 * li
                    procs.append({"pid": pid, "app": 1, "rank": (perm[k] if perm else None), "nranks": (4 if perm else None),
                                  # two threads whose TIDs differ in length: numeric order (96 < 103) is not the order of their names
                                  "threads": [100 + k, 99 - k]})
                    k += 1
                spec.append({"name": lname, "cpus": [(0, 1 + 4 * li), (1, 0 + 4 * li)], "procs": procs})
            out.append(spec)
    return out


def expected_rows(spec):
    """Documented order: looms by name or (if every loom has ranks) by minimum rank; processes by rank or pid;
    threads by tid; CPUs per loom by physical id, virtual CPU last."""
    have = [all(p.get("rank") is not None for p in l["procs"]) for l in spec]
    some = [any(p.get("rank") is not None for p in l["procs"]) for l in spec]
    if all(some):
        looms = sorted(spec, key=lambda l: min(p["rank"] for p in l["procs"] if p.get("rank") is not None))
    else:
        looms = sorted(spec, key=lambda l: l["name"])
    th, cp = [], []
    for li, l in enumerate(looms):
        ranked = any(p.get("rank") is not None for p in l["procs"])
        procs = sorted(l["procs"], key=(lambda p: p["rank"]) if ranked else (lambda p: p["pid"]))
        for p in procs:
            for t in sorted(p["threads"]):
                th.append("TH %d.%d" % (p.get("app", 1), t))
        for (idx, phy) in sorted(l["cpus"], key=lambda c: c[1]):
            cp.append(" CPU %d.%d" % (li, phy))
        cp.append("vCPU %d.*" % li)
    return th, cp


def histories(spec, cat, gold, model, tier):
    """-> list of (name, [Ev...], flags) ; stream index = position in sorted relpaths"""
    rels = []
    for l in spec:
        for p in l["procs"]:
            for t in p["threads"]:
                rels.append((obs.relpath(l["name"], p["pid"], t), l, p, t))
    rels.sort(key=lambda x: x[0])
    idx = {r[0]: i for i, r in enumerate(rels)}
    used = {}

    def start():
        h = []
        cnt = {}
        for (rel, l, p, t) in rels:
            k = cnt.get(l["name"], 0)
            cnt[l["name"]] = k + 1
            cpu = k if k < len(l["cpus"]) else -1
            h.append(Ev(idx[rel], "OHx", i32(cpu, t) + i64(0)))
        return h

    def stop():
        return [Ev(idx[rel], "OHe") for (rel, l, p, t) in rels]
    out = [("plain", start() + stop(), ())]
    c = cat[model]["char"]
    ents = sorted(k for k, g in gold["enter"].items() if k[0] == c)
    if tier == "quick":
        ents = ents[:6]
    # every enter/leave pair on every thread at the same time (values shown on thread and cpu rows)
    for e in ents:
        mid = []
        for (rel, l, p, t) in rels:
            mid.append(Ev(idx[rel], e))
        for (rel, l, p, t) in rels:
            mid.append(Ev(idx[rel], gold["enter"][e]["leave"], b"", 0))
        out.append(("pair-" + e, start() + mid + stop(), ()))
    if ents and len(ents) > 1:
        a, b = ents[0], ents[1]
        s0 = idx[rels[0][0]]
        out.append(("nest", start() + [Ev(s0, a), Ev(s0, b), Ev(s0, gold["enter"][b]["leave"]), Ev(s0, gold["enter"][a]["leave"])] + stop(), ()))
    if model in ("nosv", "nanos6"):
        M = c
        mid = []
        # every process registers a shared label and a label only it defines, then runs one task of each type
        for pi, (lname, pid) in enumerate(sorted(set((l["name"], p["pid"]) for (_, l, p, _) in rels))):
            first = [r for r in rels if r[1]["name"] == lname and r[2]["pid"] == pid][0]
            s = idx[first[0]]
            mid.append(Ev(s, M + "Yc", b"", 1, u32(1) + b"main\0"))
            mid.append(Ev(s, M + "Yc", b"", 1, u32(2) + ("solve_%d" % pid).encode() + b"\0"))
            if EDGE_LABELS:
                # a label whose colour id falls at the edge of the value range (found with the tree's own hash function)
                mid.append(Ev(s, M + "Yc", b"", 1, u32(5) + EDGE_LABELS[pi % len(EDGE_LABELS)].encode() + b"\0"))
                mid.append(Ev(s, M + "Tc", u32(5, 5)))
            # two types without a label: still two types, each with a (default) label in the .pcf
            mid.append(Ev(s, M + "Yc", b"", 1, u32(3) + b"\0"))
            mid.append(Ev(s, M + "Yc", b"", 1, u32(4) + b"\0"))
            mid.append(Ev(s, M + "Tc", u32(1, 1)))
            mid.append(Ev(s, M + "Tc", u32(2, 2)))
            mid.append(Ev(s, M + "Tc", u32(3, 3)))
            mid.append(Ev(s, M + "Tc", u32(4, 4)))
            # labels close to the longest one the emulator takes (511 characters): the line of the .pcf is longer than the label
            for tyid, n in ((6, 500), (7, 505), (8, 511)):
                lab = ("%d_%d_" % (pid, n)) + "w" * n
                mid.append(Ev(s, M + "Yc", b"", 1, u32(tyid) + lab[:n].encode() + b"\0"))
                mid.append(Ev(s, M + "Tc", u32(tyid, tyid)))
            for tid in (1, 2, 3, 4, 6, 7, 8) + ((5,) if EDGE_LABELS else ()):
                pay = u32(tid, 0) if M == "V" else u32(tid)
                mid.append(Ev(s, M + "Tx", pay))
                mid.append(Ev(s, M + "Te", pay))
        out.append(("tasks", start() + mid + stop(), ()))
        # breakdown trace
        prog = []
        for (rel, l, p, t) in rels:
            prog.append(Ev(idx[rel], M + "Pr"))
            prog.append(Ev(idx[rel], M + "Pp"))
        out.append(("breakdown", start() + mid + prog + stop(), ("-b",)))
        # ... and with events after the last change of any breakdown row (bursts of the last thread, which is over)
        s_last = idx[rels[-1][0]]
        out.append(("breakdown-quiet-tail", start() + mid + prog + stop() + [Ev(s_last, "OB."), Ev(s_last, "OB.")], ("-b",)))
    if model == "ovni":
        s0 = idx[rels[0][0]]
        out.append(("flush", start() + [Ev(s0, "OF["), Ev(s0, "OF]")] + stop(), ()))
        # the trace goes on after the last change of any timeline: events that show nowhere (a burst, an empty unordered
        # region, a flush pair of a dead thread is what libovni itself leaves) still move the end of the trace
        out.append(("quiet-tail", start() + stop() + [Ev(s0, "OB."), Ev(s0, "OU["), Ev(s0, "OU]"), Ev(s0, "OB.")], ()))
        out.append(("quiet-tail-flush", start() + [Ev(s0, "OB.")] + stop() + [Ev(s0, "OF["), Ev(s0, "OF]")], ()))
        l0 = rels[0][1]
        nth0 = sum(1 for r in rels if r[1]["name"] == l0["name"])
        if nth0 < len(l0["cpus"]):
            # a free CPU in the first loom: the running thread migrates there and back
            free = len(l0["cpus"]) - 1
            out.append(("migrate", start() + [Ev(s0, "OAs", i32(free)), Ev(s0, "OB."), Ev(s0, "OAs", i32(0))] + stop(), ()))
        out.append(("affinity", start() + [Ev(s0, "OAs", i32(-1)), Ev(s0, "OHp"), Ev(s0, "OHr"), Ev(s0, "OHc"), Ev(s0, "OHp"), Ev(s0, "OHw"), Ev(s0, "OHr")] + stop(), ()))
    return rels, out


def validate_outputs(td, spec, hist, flags, last_time):
    """-> list of problems"""
    probs = []
    th_names, cpu_names = expected_rows(spec)
    files = sorted(glob.glob(os.path.join(td, "*.prv")))
    if not files:
        return ["no .prv written"]
    seen_pairs = set()
    for f in files:
        base = f[:-4]
        name = os.path.basename(base)
        if name.endswith("breakdown") and "-b" not in flags:
            continue        # left by an earlier emulation with -b: not generated by this one
        try:
            dur, nrows, lines = pv.parse_prv(open(f).read())
            pcf = pv.parse_pcf(open(base + ".pcf").read())
            rows = pv.parse_row(open(base + ".row").read())
        except (pv.PvError, OSError) as e:
            probs.append("%s: %s" % (name, e))
            continue
        if len(rows) != nrows:
            probs.append("%s.row names %d rows, %s.prv declares %d" % (name, len(rows), name, nrows))
        if name == "thread" and rows != th_names:
            probs.append("thread.row is %r, documented order gives %r" % (rows, th_names))
        if name == "cpu" and rows != cpu_names:
            probs.append("cpu.row is %r, documented order gives %r" % (rows, cpu_names))
        if name.endswith("breakdown"):
            nphy = sum(len(l["cpus"]) for l in spec)
            if nrows != nphy:
                probs.append("%s declares %d rows for %d physical CPUs" % (name, nrows, nphy))
        last = 0
        for (t, row, ty, val) in lines:
            if t < last:
                probs.append("%s.prv: timestamp goes back %d -> %d" % (name, last, t))
                break
            last = t
            if not (1 <= row <= nrows):
                probs.append("%s.prv: row %d outside of the declared %d rows" % (name, row, nrows))
                break
            if ty not in pcf:
                probs.append("%s.prv: event type %d is not declared in %s.pcf" % (name, ty, name))
                break
            if val != 0 and (ty in LABELLED or 100 <= ty < 200 and pcf[ty][1]) and val not in pcf[ty][1]:
                if ty in LABELLED:
                    probs.append("%s.prv: value %d of type %d (%s) has no label in the .pcf" % (name, val, ty, pcf[ty][0]))
                    break
            seen_pairs.add((ty, val))
        if dur != last_time:
            probs.append("%s.prv header duration %d, last event time %d" % (name, dur, last_time))
        if lines and lines[-1][0] > dur:
            probs.append("%s.prv has a line after the declared duration" % name)
    return probs, seen_pairs


def run(prop, tier):
    ctx = Ctx("C13", tier, "model_checking")
    tier = plan_of("C13", tier)
    ctx.cov["plan"] = tier
    scratch = Scratch("C13")
    try:
        build = Build()
        emu = build.tool("plain", "ovniemu")
        cat = catalog.load_events()
        gold = catalog.golden("enter_values.json")
        try:
            gs = build.harness("plain", "gid_search", ["gid_search.c"], extra=["-I", os.path.join(REPO, "src/emu"), "-I", os.path.join(REPO, "src")])
            import subprocess
            out = subprocess.run([gs, "2"], stdout=subprocess.PIPE, timeout=300).stdout.decode().split("\n")
            EDGE_LABELS[:] = [l.split()[0] for l in out if l.strip()]
        except (InfraError, OSError, subprocess.SubprocessError) as e:
            ctx.part("edge-labels", skipped=str(e)[:200])
        ctx.part("edge-labels", labels=list(EDGE_LABELS))
        models = ["ovni", "nosv", "nanos6", "nodes", "mpi", "tampi", "openmp", "kernel"]
        jobs = []
        for ci, spec in enumerate(configs(tier)):
            for model in models:
                rels, hs = histories(spec, cat, gold, model, tier)
                for (hname, hist, flags) in hs:
                    jobs.append((ci, spec, model, hname, hist, flags, rels))
                    # the same trace with every model forced on, and with the breakdown view on top of that (every fourth configuration)
                    if ci % 4 and tier != "deep":
                        continue
                    jobs.append((ci, spec, model, hname + " -a", hist, tuple(flags) + ("-a",), rels))
                    if "-b" not in flags:
                        jobs.append((ci, spec, model, hname + " -a -b", hist, tuple(flags) + ("-a", "-b"), rels))
                # not from the initial state: the directory already holds the output of an emulation of a longer trace
                longest = max(hs, key=lambda h: len(h[1]))
                if len(longest[1]) > len(hs[0][1]):
                    jobs.append((ci, spec, model, hs[0][0] + "-after-" + longest[0], hs[0][1], hs[0][2], rels, longest))
        nmain = len(configs(tier))
        for ci, spec in enumerate(order_configs(tier)):
            rels, hs = histories(spec, cat, gold, "ovni", tier)
            jobs.append((nmain + ci, spec, "ovni", hs[0][0], hs[0][1], hs[0][2], rels))
        base = scratch.sub("runs")

        def one(j):
            ci, spec, model, hname, hist, flags, rels = j[:7]
            td = os.path.join(base, "w%d" % os.getpid())
            req = {"ovni": cat["ovni"]["version"], model: cat[model]["version"]}
            extra = {"*": {"nosv": {"can_breakdown": True}, "nanos6": {"can_breakdown": True}}} if "-b" in flags else None
            system = emusrv.System(spec, require=req, extra_meta=extra)
            stream_of = {i: r[0] for i, r in enumerate(rels)}
            if len(j) > 7:
                (lname, lhist, lflags) = j[7]
                lextra = {"*": {"nosv": {"can_breakdown": True}, "nanos6": {"can_breakdown": True}}} if "-b" in lflags else None
                emusrv.materialise(emusrv.System(spec, require=req, extra_meta=lextra), td, lhist, stream_of)
                rc0, _, err0 = emusrv.run_tool(emu, ["-l"] + list(lflags) + [td])
                emusrv.materialise(system, td, hist, stream_of, keep_outputs=True)
            else:
                emusrv.materialise(system, td, hist, stream_of)
            rc, out, err = emusrv.run_tool(emu, ["-l"] + list(flags) + [td])
            if rc != 0:
                lines = [l for l in err.split("\n") if "ERROR" in l][:2]
                return ("rejected", rc, " | ".join(lines), set())
            last_time = sum(e[1] for e in hist[1:])
            probs, pairs = validate_outputs(td, spec, hist, flags, last_time)
            return ("ok", 0, probs, pairs)
        res = pmap(one, jobs)
        allpairs = set()
        nacc = 0
        for j, (st, rc, info, pairs) in zip(jobs, res):
            ci, spec, model, hname, hist, flags, rels = j[:7]
            ctx.add(evaluations=1, transitions=len(hist))
            if st == "rejected":
                if rc != 1:
                    ctx.violation("ovniemu died (exit %r) on config %d model %s history %s" % (rc, ci, model, hname),
                                  {"engine": "E6 real ovniemu", "spec": spec, "model": model, "history": [e.line() for e in hist], "flags": list(flags)},
                                  {"kind": "crash"})
                else:
                    ctx.part("rejected", **{"%s/%s" % (model, hname): 1})
                    ctx.part("rejected-why", **{"%s/%s" % (model, hname): info})
                continue
            nacc += 1
            allpairs |= pairs
            for p in info:
                kind = "undeclared-cpu-type" if ("cpu.prv: event type" in p and any(p.startswith("cpu.prv: event type %d " % t) for t in (1, 2, 3))) else "paraver"
                ctx.violation("config %d (%d looms) model %s history %s: %s" % (ci, len(spec), model, hname, p),
                              {"engine": "E6 real ovniemu", "spec": spec, "model": model, "hname": hname,
                               "history": [e.line() for e in hist], "flags": list(flags), "problem": p},
                              {"kind": kind})
        ctx.add(states=nacc, traces_validated_against_impl=nacc)
        ctx.cov["distinct_type_value_pairs"] = len(allpairs)
        ctx.part("sweep", row_order_configurations=len(order_configs(tier)), configurations=len(configs(tier)), models=len(models), runs=len(jobs), accepted=nacc)
        ctx.sample({"config": configs(tier)[-1], "model": "nosv", "history": "tasks"})
        ctx.cov["rule"] = ("looms 1-2 (thorough 1-3) x processes 1-2 (1-3) x threads 1-2 x CPUs 1-2 (1-3) x rank on/off (rank order reversed w.r.t. name order, physical ids "
                           "reversed w.r.t. indices) x 8 models x {plain, every enter/leave pair on all threads, nesting, tasks with shared and private "
                           "type labels per process, breakdown (-b), flush, affinity, each also with -a and -a -b; the plain history again in a directory that holds the output of an emulation of the longest one}; plus the row-order family: 2 looms x 2 processes with every assignment of "
                           "ranks 0-3 (or none) and PIDs whose string and numeric orders differ; every accepted trace's .prv/.pcf/.row validated")
        ctx.cov["distinct_nontrivial"] = nacc
        ctx.assumptions += ["histories are materialised by lib/obs.py and run through the real ovniemu binary built from the tree"]
        return ctx.finish()
    finally:
        scratch.cleanup()
