"""C07: task life-cycle.
 (A) module level: task.c/body.c driven directly for all flag combinations; after
     every accepted operation the complete implementation state (every body, every
     stack) must equal the reference state, every refused/accepted verdict must agree.
 (B) end to end: nOS-V and Nanos6 task events on the real emulator (E3), acceptance =
     body machine AND region-stack rule, thread/CPU rows show the running body.
"""
import os, subprocess, itertools, json
from lib.common import Ctx, Build, Scratch, InfraError, REPO, pmap
from lib import emusrv, catalog, pv
from lib.emusrv import Ev, Fin, i32, i64, u32
from lib.explore import ServerPool, Explorer, Ref, short_hist, binding_cases, bind_shallow
from checks.c08 import PrefixPool, PrefixRefused, report_prefix

PAR, RES, PAUSE, RELAX = 1, 2, 4, 8
NT, NB, NTH = 3, 2, 2


# ---------------------------------------------------------------------------
# reference body machine (DESIGN.md A.4)
# ---------------------------------------------------------------------------
class BodyModel:
    """state: (bodies, stacks); bodies: tuple of ((task,body),(st,owner)) sorted; stacks: tuple per thread (top first)"""

    def __init__(self, flags):
        self.flags = flags      # {task: flags}

    def init(self, nth=NTH):
        return ((), tuple(() for _ in range(nth)))

    def step(self, s, op, k, t, b):
        bodies, stacks = dict(s[0]), [list(x) for x in s[1]]
        f = self.flags.get(t)
        if f is None:
            return None, "unknown task"
        key = (t, b)
        cur = bodies.get(key)
        top = stacks[k][0] if stacks[k] else None
        if op == "x":
            if cur is None:
                if not (f & PAR) and any(tt == t for (tt, bb) in bodies):
                    return None, "second body of a non-parallel task"
                st = "C"
            else:
                st = cur[0]
            if st == "D":
                if not (f & RES):
                    return None, "dead body may not run again"
                st = "C"
            if st != "C":
                return None, "execute needs a created (or resurrected) body, is %s" % st
            if top is not None and bodies[top][0] == "R" and not (self.flags[top[0]] & RELAX):
                return None, "nesting over a running body"
            bodies[key] = ("R", k)
            stacks[k].insert(0, key)
        elif op == "p":
            if cur is None:
                return None, "no such body"
            if not (f & PAUSE):
                return None, "task may not pause"
            if cur != ("R", k) or top != key:
                return None, "pause needs the running top body of this thread"
            bodies[key] = ("P", k)
        elif op == "r":
            if cur is None:
                return None, "no such body"
            if cur != ("P", k) or top != key:
                return None, "resume needs the paused top body of this thread"
            bodies[key] = ("R", k)
        elif op == "e":
            if cur is None:
                return None, "no such body"
            if cur != ("R", k) or top != key:
                return None, "end needs the running top body of this thread"
            bodies[key] = ("D", None)
            stacks[k].pop(0)
        return (tuple(sorted(bodies.items())), tuple(tuple(x) for x in stacks)), "legal"

    def invariant(self, s):
        bodies, stacks = dict(s[0]), s[1]
        seen = set()
        for k, stk in enumerate(stacks):
            for i, key in enumerate(stk):
                if key in seen:
                    return "body %r on two stacks" % (key,)
                seen.add(key)
                st, owner = bodies[key]
                if owner != k or st not in "RP":
                    return "stack entry %r inconsistent" % (key,)
                if i > 0 and st == "R" and not (self.flags[key[0]] & RELAX):
                    return "running body %r below the top without relaxed nesting" % (key,)
        for key, (st, owner) in bodies.items():
            if st in "RP" and key not in seen:
                return "running/paused body %r on no stack" % (key,)
        return None

    def dump(self, s):
        """Same textual form as harness/task_server.c"""
        bodies, stacks = dict(s[0]), s[1]
        out = ""
        for t in range(1, NT + 1):
            for b in range(1, NB + 1):
                cur = bodies.get((t, b))
                if cur is None:
                    out += "b%d%d=--," % (t, b)
                else:
                    out += "b%d%d=%s%s," % (t, b, cur[0], "-" if cur[1] is None else str(cur[1]))
        for k, stk in enumerate(stacks):
            out += "s%d=" % k + "".join("%d%d" % key for key in stk)
            run = stk[0] if stk and bodies[stk[0]][0] == "R" else None
            out += "/%d%d," % (run if run else (0, 0))
        return out


def module_walk(ctx, build, tier):
    exe = build.harness("san", "task_server", ["task_server.c"],
                        extra=['-DVERIF_BODY_C="%s"' % os.path.join(REPO, "src/emu/body.c")])
    ops = [(o, k, t, b) for o in "xepr" for k in range(NTH) for t in range(1, NT + 1) for b in range(1, NB + 1)]
    if tier == "quick":
        combos = [(f, f, f) for f in range(16)] + [(6, 1, 14), (12, 3, 0)]
        depth = 5
    else:
        combos = [(f, g, f) for f in range(16) for g in range(16)]
        depth = 6
    import time
    t_end = ctx.t0 + ctx.deadline_s * 0.45      # the module walk may use 45% of the time budget

    def one(fl):
        p = subprocess.Popen([exe], stdin=subprocess.PIPE, stdout=subprocess.PIPE,
                             env=dict(os.environ, ASAN_OPTIONS="detect_leaks=0"))
        model = BodyModel({1: fl[0], 2: fl[1], 3: fl[2]})
        s0 = model.init()
        seen = {s0: []}
        frontier = [s0]
        nprobe = 0
        viol = []
        outcomes = set()
        timed_out = False
        for d in range(depth):
            nxt = []
            for s in frontier:
                if time.time() > t_end:
                    timed_out = True
                    break
                hist = seen[s]
                # one query per probe: history + probe (the server answers every op of the line)
                lines = []
                for (o, k, t, b) in ops:
                    lines.append("%d %d %d | %s\n" % (fl[0], fl[1], fl[2], " ".join(hist + ["%s%d%d%d" % (o, k, t, b)])))
                p.stdin.write("".join(lines).encode())
                p.stdin.flush()
                for (o, k, t, b) in ops:
                    ans = p.stdout.readline().decode().split()
                    nprobe += 1
                    if len(ans) != len(hist) + 1:
                        viol.append(("task_server crashed or desynchronised on %s + %s%d%d%d" % (hist, o, k, t, b), hist, (o, k, t, b)))
                        return nprobe, len(seen), viol, outcomes
                    verdict, dmp = ans[-1].split(":", 1)
                    s2, why = model.step(s, o, k, t, b)
                    outcomes.add((o, verdict, why))
                    if (s2 is not None) != (verdict == "ok"):
                        viol.append(("flags %s, history %s: %s%d%d%d is %s by the reference (%s) but the module says %s" % (
                            fl, hist, o, k, t, b, "legal" if s2 is not None else "illegal", why, verdict), hist, (o, k, t, b)))
                        continue
                    if s2 is None:
                        continue
                    if model.dump(s2) != dmp:
                        viol.append(("flags %s, history %s + %s%d%d%d: module state %s, reference %s" % (
                            fl, hist, o, k, t, b, dmp, model.dump(s2)), hist, (o, k, t, b)))
                        continue
                    inv = model.invariant(s2)
                    if inv:
                        viol.append(("flags %s, history %s + %s%d%d%d: %s" % (fl, hist, o, k, t, b, inv), hist, (o, k, t, b)))
                    if s2 not in seen:
                        seen[s2] = hist + ["%s%d%d%d" % (o, k, t, b)]
                        nxt.append(s2)
            if timed_out:
                break
            frontier = nxt
            if len(viol) > 5:
                break
        p.stdin.close()
        p.wait()
        return nprobe, len(seen), viol[:5], outcomes, len(frontier), (d if timed_out else depth)
    res = pmap(one, combos)
    outcomes = set()
    left = 0
    mindepth = depth
    for fl, r in zip(combos, res):
        nprobe, nst, viol, oc = r[0], r[1], r[2], r[3]
        left += r[4] if len(r) > 4 else 0
        if len(r) > 5:
            mindepth = min(mindepth, r[5])
        outcomes |= oc
        ctx.add(evaluations=nprobe, transitions=nprobe, states=nst, traces_validated_against_impl=nprobe)
        for (msg, hist, op) in viol:
            ctx.violation("module walk: " + msg, {"engine": "E4 task_server", "flags": fl, "history": hist, "probe": "%s%d%d%d" % op},
                          {"kind": "module", "op": op[0]})
    if mindepth < depth:
        ctx.cap("module walk: time budget reached; every flag combination completed depth %d (of %d)" % (mindepth, depth))
    ctx.part("module-walk", flag_combinations=len(combos), depth=depth, depth_completed_by_all=mindepth, ops_per_state=len(ops),
             distinct_outcomes=len(outcomes), frontier_left_at_depth_limit=left)
    if left:
        ctx.part("module-walk", note="search stopped at depth %d (bounded), all states up to that depth expanded" % depth)
    ctx.sample({"module_history": ["x011", "p011", "x021", "e021", "r011", "e011"], "flags": "task1=pause|resurrect"})


# ---------------------------------------------------------------------------
# end-to-end walks
# ---------------------------------------------------------------------------
class TaskRef(Ref):
    """nOS-V ('V') or Nanos6 ('6') task events on two running threads of one process."""

    def __init__(self, m, sidx, rows, cpurows, rank, depth, procs=1):
        self.m = m
        self.procs = procs          # 2: thread k belongs to process k; task ids, types, app id and rank are per process
        self.sidx, self.rows, self.cpurows, self.rank = sidx, rows, cpurows, rank
        self.depth = depth
        if m == "V":
            self.flags = {1: RES | PAUSE, 2: RES | PAUSE, 3: PAR}
            self.types = (10, 11, 12, 14, 15, 13)
            self.T = {"task": 10, "gid": 11, "app": 12, "rank": 14, "body": 15, "ss": 13}
            self.neutral = ("VAs", "VAS", 14)
            self.body_ss = 11
        else:
            self.flags = {1: PAUSE | RELAX, 2: PAUSE | RELAX, 3: PAUSE | RELAX}     # task 3 has the type of task 1
            self.types = (35, 36, 38, 37)
            self.T = {"task": 35, "gid": 36, "rank": 38, "ss": 37}
            self.neutral = ("6Wt", "6WT", 18)
            self.body_ss = None     # learned
        if procs == 2:
            # the same task ids exist independently in both processes: internal id = id + 10 * process
            self.flags.update({t + 10: f for t, f in list(self.flags.items())})
        self.bm = BodyModel(self.flags)
        self.learn_map = {}
        self._alpha = None
        self.spec = None
        self.cool = set()           # model threads that are cooling (active, not running) during the walk

    def init(self):
        return (self.bm.init(), ((), ()))

    def alphabet(self, s):
        if self._alpha is None:
            out = []
            m = self.m
            for k in range(2):
                si = self.sidx[k]
                if m == "V":
                    for o in "xepr":
                        for t in (1, 2, 3, 9):
                            for b in (0, 1, 2):
                                if t == 9 and b:
                                    continue
                                out.append(((o, k, t, b), Ev(si, "VT" + o, u32(t, b))))
                    out.append((("c", k, 1), Ev(si, "VTc", u32(1, 7))))
                    out.append((("c", k, 5), Ev(si, "VTc", u32(5, 99))))    # unknown type
                else:
                    for o in "xepr":
                        for t in (1, 2, 3, 9):
                            out.append(((o, k, t, 0), Ev(si, "6T" + o, u32(t))))
                    out.append((("c", k, 1), Ev(si, "6Tc", u32(1, 7))))
                out.append((("n+", k), Ev(si, self.neutral[0])))
                out.append((("n-", k), Ev(si, self.neutral[1])))
            self._alpha = out
        return self._alpha

    def step(self, s, label):
        bs, ss = s
        o = label[0]
        k = label[1]
        ssk = list(ss[k])
        if o == "n+":
            if ssk and ssk[-1] == "N":
                return ("soft", None, "immediate re-entry")
            if len(ssk) >= self.depth:
                return ("ok", None, "enter (beyond explored depth)")
            ssk.append("N")
            return ("ok", (bs, tuple(tuple(ssk) if i == k else ss[i] for i in range(2))), "enter neutral region")
        if o == "n-":
            if ssk and ssk[-1] == "N":
                ssk.pop()
                return ("ok", (bs, tuple(tuple(ssk) if i == k else ss[i] for i in range(2))), "leave neutral region")
            return ("fail", None, "leave without matching enter")
        if o == "c":
            return ("fail", None, "task id already exists / unknown type")
        t, b = label[2], label[3]
        if self.procs == 2:
            t = t + 10 * k
        if t not in self.flags:
            return ("fail", None, "unknown task id")
        if self.m == "V":
            par = bool(self.flags[t] & PAR)
            if par and b == 0:
                return ("fail", None, "parallel task needs body id > 0")
            if not par and b != 0:
                return ("fail", None, "non-parallel task needs body id 0")
            bid = b if par else 1
        else:
            bid = 1
        bs2, why = self.bm.step(bs, o, k, t, bid)
        if bs2 is None:
            return ("fail", None, why)
        # region-stack rule: execute enters the "task body" region, end leaves it
        if o == "x":
            if ssk and ssk[-1] == "B" and self.m == "6":
                # Legal by the body machine (the parent is paused, or Nanos6 relaxes nesting).  The Nanos6 model refuses it when
                # no other subsystem region was opened in between (its subsystem channel rejects the repeated "task body" push;
                # nOS-V allows it): recorded as known finding D17, matched through the cause tag.
                why = why + " [cause=nanos6-body-region-reentry]"
            if len(ssk) >= self.depth + 2:
                return ("ok", None, why + " (beyond explored depth)")
            ssk.append("B")
        elif o == "e":
            if not ssk or ssk[-1] != "B":
                return ("fail", None, "end while the innermost open region is not the task body")
            ssk.pop()
        # bound the search
        if len(dict(bs2[0])) > 4:
            return ("ok", None, why + " (state bound)")
        return ("ok", (bs2, tuple(tuple(ssk) if i == k else ss[i] for i in range(2))), why)

    def learn(self, s, disp):
        bs, ss = s
        bodies = dict(bs[0])
        for k in range(2):
            stk = bs[1][k]
            run = stk[0] if stk and bodies[stk[0]][0] == "R" else None
            if run and ("gid", run[0]) not in self.learn_map:
                # the type gid is a hash of the label: learned the first time each task is displayed;
                # tasks of different types must then show different values
                v = disp.get(("thread", self.rows[k], self.T["gid"]), 0)
                if v:
                    self.learn_map[("gid", run[0])] = v
            if ss[k] and ss[k][-1] == "B" and self.body_ss is None:
                v = disp.get(("thread", self.rows[k], self.T["ss"]), 0)
                if v:
                    self.body_ss = v

    def display(self, s):
        bs, ss = s
        bodies = dict(bs[0])
        d = {}
        for k in range(2):
            stk = bs[1][k]
            run = stk[0] if stk and bodies[stk[0]][0] == "R" else None
            # relaxed nesting: the innermost body is paused while one below it is still in the running state.  Which of
            # "nothing" and that body's task the rows show then is not fixed by the property: both are accepted
            lower = None
            if run is None:
                for b in stk[1:]:
                    if bodies[b][0] == "R":
                        lower = b
                        break
            vals = {}
            vals[self.T["task"]] = (run[0] % 10) if run else 0
            if run and ("gid", run[0]) in self.learn_map:
                vals[self.T["gid"]] = self.learn_map[("gid", run[0])]
            elif not run:
                vals[self.T["gid"]] = 0
            if "app" in self.T:
                vals[self.T["app"]] = ((k + 1) if self.procs == 2 else 1) if run else 0
            if "body" in self.T:
                vals[self.T["body"]] = run[1] if run else 0
            vals[self.T["rank"]] = ((self.rank + k if self.procs == 2 else self.rank) + 1) if run else 0
            top = ss[k][-1] if ss[k] else None
            if top == "N":
                vals[self.T["ss"]] = self.neutral[2]
            elif top == "B":
                if self.body_ss is not None:
                    vals[self.T["ss"]] = self.body_ss
            else:
                vals[self.T["ss"]] = 0
            if lower is not None:
                alt = {self.T["task"]: lower[0] % 10, self.T["rank"]: (self.rank + k if self.procs == 2 else self.rank) + 1}
                if ("gid", lower[0]) in self.learn_map:
                    alt[self.T["gid"]] = self.learn_map[("gid", lower[0])]
                else:
                    vals.pop(self.T["gid"], None)
                if "app" in self.T:
                    alt[self.T["app"]] = (k + 1) if self.procs == 2 else 1
                if "body" in self.T:
                    alt[self.T["body"]] = lower[1]
                for ty, v in alt.items():
                    if ty in vals:
                        vals[ty] = (vals[ty], v)
            for ty, v in vals.items():
                if k in self.cool:
                    # a cooling thread is active but not running: only the subsystem row (tracked by the active thread) shows
                    d[("thread", self.rows[k], ty)] = v if ty == self.T["ss"] else 0
                    d[("cpu", self.cpurows[k], ty)] = 0
                    continue
                d[("thread", self.rows[k], ty)] = v
                d[("cpu", self.cpurows[k], ty)] = v
        return d

    def attribute(self, kind, label):
        return "C07"


class LearnExplorer(Explorer):
    def _check_display(self, s, disp, hist, ev, label):
        self.ref.learn(s, disp)
        return Explorer._check_display(self, s, disp, hist, ev, label)


def e2e_walk(ctx, build, scratch, exe, cat, m, tier, flags=("-l",), cool=False):
    """cool: the first model thread is cooling (active, not running) during the whole walk.  Task events only need an active
    thread, so the accepted histories are the same; its running-thread rows and its CPU's rows show nothing meanwhile."""
    model = "nosv" if m == "V" else "nanos6"
    tagx = "" if tuple(flags) == ("-l",) else " " + " ".join(flags)
    if cool:
        tagx += " cooling"
    rank = 2
    spec = [{"name": "A", "cpus": [(0, 0), (1, 1), (2, 2)],
             "procs": [{"pid": 100, "threads": [101, 102, 103], "rank": rank, "nranks": 4}]}]
    req = {"ovni": cat["ovni"]["version"], model: cat[model]["version"]}
    system = emusrv.System(spec, require=req, extra_meta=({"*": {model: {"can_breakdown": True}}} if "-b" in flags else None))
    td = system.write(scratch.sub("trace-" + model + tagx.replace(" ", "")))
    pool = ServerPool(exe, td, list(flags))
    pool.meta = system.meta if "system" in dir() else None
    try:
        s = pool.local.streams
        sidx = [s["loom.A/proc.100/thread.101"], s["loom.A/proc.100/thread.102"]]
        hs = s["loom.A/proc.100/thread.103"]
        prefix = [Ev(hs, "OHx", i32(2, 103) + i64(0)),
                  Ev(sidx[0], "OHx", i32(0, 101) + i64(0)), Ev(sidx[1], "OHx", i32(1, 102) + i64(0)),
                  Ev(hs, m + "Yc", b"", 1, u32(7) + b"ttype\0"), Ev(hs, m + "Yc", b"", 1, u32(8) + b"utype\0"),
                  Ev(hs, m + "Tc", u32(1, 7)), Ev(hs, m + "Tc", u32(2, 8))]
        if m == "V":
            prefix.append(Ev(hs, "VTC", u32(3, 7)))
        else:
            prefix.append(Ev(hs, "6Tc", u32(3, 7)))
        if cool:
            prefix.append(Ev(sidx[0], "OHc"))
        try:
            pp = PrefixPool(pool, prefix)
        except PrefixRefused as e:
            report_prefix(ctx, e, "e2e-" + model + tagx, pool.flags, spec)
            return
        ref = TaskRef(m, sidx, rows=[1, 2], cpurows=[1, 2], rank=rank, depth=2)
        ref.spec = spec
        if cool:
            ref.cool = {0}
        dmax = (4 if tier == "quick" else 6) if cool else (5 if tier == "quick" else 8)
        ex = LearnExplorer(ctx, pp, ref, name="e2e-" + model + tagx, report_props={"C07"}, check_time=False,
                           max_depth=dmax, max_states=(4000 if tier == "quick" else 60000))
        st = ex.run()
        gids = {str(k[1]): v for k, v in ref.learn_map.items()}
        ctx.part("e2e-" + model + tagx, learned_gid_by_task=gids, body_subsystem_value=ref.body_ss)
        if len(set(gids.values())) < len(gids) and len(gids) > 1 and gids.get("1") == gids.get("2"):
            ctx.violation("%s: tasks 1 and 2 have different types but the timeline shows the same type value %r" % (model, gids),
                          {"engine": "E3", "check": "type-distinct", "model": model}, {"kind": "type-distinct"})
        if not tagx:
            # task (and parallel body) identifiers are 32-bit unsigned: the rows show them as they are, also beyond 2^31
            tyid = 10 if m == "V" else 35
            for big in (0x7fffffff, 0x80000000, 0xfffffffe):
                pay = u32(big, 0) if m == "V" else u32(big)
                hist = prefix + [Ev(hs, m + "Tc", u32(big, 7))]
                _, res = pool.local.expand(hist, [Ev(sidx[0], m + "Tx", pay)])
                ctx.add(evaluations=1, transitions=len(hist) + 1)
                r0 = res[0]
                shown = [val for (n, row, tm, ty, val) in r0.lines if n == "thread" and row == 1 and ty == tyid]
                if not r0.ok or shown != [big]:
                    ctx.violation("%s: task with identifier %d: execute %s, the thread's task row shows %r" % (model, big, r0.status, shown),
                                  {"engine": "E3", "check": "big-task-id", "model": model, "id": big, "history": [e.line() for e in hist]}, {"kind": "big-id"})
            if m == "V":
                for bigb in (0x80000001, 0xffffffff):
                    hist = prefix + [Ev(sidx[0], "VTx", u32(3, bigb))]
                    _, res = pool.local.expand(hist[:-1], [hist[-1]])
                    ctx.add(evaluations=1, transitions=len(hist))
                    r0 = res[0]
                    shown = [val for (n, row, tm, ty, val) in r0.lines if n == "thread" and row == 1 and ty == 15]
                    if not r0.ok or shown != [bigb]:
                        ctx.violation("nosv: body %d of the parallel task: execute %s, the thread's body row shows %r" % (bigb, r0.status, shown),
                                      {"engine": "E3", "check": "big-body-id", "id": bigb, "history": [e.line() for e in hist]}, {"kind": "big-id"})
        if not ctx.nviol and not tagx:
            t0 = sidx[0]
            T = m + "T"
            pay = (lambda t, b=0: u32(t, b)) if m == "V" else (lambda t, b=0: u32(t))
            cases = [prefix + [Ev(t0, T + "x", pay(1)), Ev(t0, T + "p", pay(1)), Ev(t0, T + "x", pay(2)), Ev(t0, T + "e", pay(2)),
                               Ev(t0, T + "r", pay(1)), Ev(t0, T + "e", pay(1))],
                     prefix + [Ev(t0, T + "x", pay(1)), Ev(t0, T + "e", pay(1)), Ev(t0, T + "x", pay(1)), Ev(t0, T + "e", pay(1))],
                     prefix + [Ev(t0, T + "x", pay(1)), Ev(sidx[1], T + "x", pay(1))],
                     prefix + [Ev(t0, T + "x", pay(1)), Ev(t0, T + "x", pay(2))]]
            binding_cases(ctx, build, system, pool, cases, model, emu_flags=())
            bind_shallow(ctx, build, system, pool, ex, model + "-shallow", emu_flags=(), limit=(150 if tier == "quick" else 1000))
        ctx.sample({"model": model, "states": st["states"], "probes": st["probes"],
                    "example": short_hist(prefix[-3:] + [Ev(sidx[0], m + "Tx", u32(1, 0) if m == "V" else u32(1))])})
    finally:
        pool.close()


def e2e_walk_2p(ctx, build, scratch, exe, cat, m, tier):
    """Two processes with one thread each: the same task and type ids exist independently in both, with different
    labels, app ids and ranks; what one process does with its task 1 must not matter to the other's task 1."""
    model = "nosv" if m == "V" else "nanos6"
    rank = 0        # rank 0 is shown as 1: the lowest value must be cleared like any other when no body runs
    spec = [{"name": "A", "cpus": [(0, 0), (1, 1)],
             "procs": [{"pid": 100, "app": 1, "threads": [101], "rank": rank, "nranks": 4},
                       {"pid": 200, "app": 2, "threads": [201], "rank": rank + 1, "nranks": 4}]}]
    req = {"ovni": cat["ovni"]["version"], model: cat[model]["version"]}
    system = emusrv.System(spec, require=req)
    td = system.write(scratch.sub("trace2p-" + model))
    pool = ServerPool(exe, td, ["-l"])
    pool.meta = system.meta if "system" in dir() else None
    try:
        s = pool.local.streams
        sidx = [s["loom.A/proc.100/thread.101"], s["loom.A/proc.200/thread.201"]]
        prefix = [Ev(sidx[0], "OHx", i32(0, 101) + i64(0)), Ev(sidx[1], "OHx", i32(1, 201) + i64(0))]
        # the second process leaves its two types unlabelled (empty label): they still are two different types
        for k, (la, lb) in enumerate(((b"ttype\0", b"utype\0"), (b"\0", b"\0"))):
            prefix += [Ev(sidx[k], m + "Yc", b"", 1, u32(7) + la), Ev(sidx[k], m + "Yc", b"", 1, u32(8) + lb),
                       Ev(sidx[k], m + "Tc", u32(1, 7)), Ev(sidx[k], m + "Tc", u32(2, 8))]
            if m == "V":
                prefix.append(Ev(sidx[k], "VTC", u32(3, 7)))
            else:
                prefix.append(Ev(sidx[k], "6Tc", u32(3, 7)))
        try:
            pp = PrefixPool(pool, prefix)
        except PrefixRefused as e:
            report_prefix(ctx, e, "e2e-2procs-" + model, pool.flags, spec)
            return
        ref = TaskRef(m, sidx, rows=[1, 2], cpurows=[1, 2], rank=rank, depth=1, procs=2)
        ref.spec = spec
        ex = LearnExplorer(ctx, pp, ref, name="e2e-2procs-" + model, report_props={"C07"}, check_time=False,
                           max_depth=(4 if tier == "quick" else 6), max_states=(3000 if tier == "quick" else 40000))
        st = ex.run()
        gids = {str(k[1]): v for k, v in ref.learn_map.items()}
        ctx.part("e2e-2procs-" + model, learned_gid_by_task=gids, states=st["states"], probes=st["probes"])
        vals = [gids[t] for t in ("1", "2", "11", "12") if t in gids]     # four tasks of four differently labelled types
        if len(vals) == 4 and len(set(vals)) < 4:
            ctx.violation("%s, two processes: four different type labels but the timelines show only the values %r" % (model, gids),
                          {"engine": "E3", "check": "type-distinct-2procs", "model": model}, {"kind": "type-distinct"})
    finally:
        pool.close()


def type_labels(ctx, scratch, exe, cat, m):
    """The type a running task shows is a number; the .pcf must give that number the label the type was created with, for the
    types of every process of every loom (two looms, one and two processes, types with equal ids and different labels)."""
    model = "nosv" if m == "V" else "nanos6"
    tyid = 11 if m == "V" else 36
    spec = [{"name": "A", "cpus": [(0, 0)], "procs": [{"pid": 100, "app": 1, "threads": [101], "rank": 0, "nranks": 4}]},
            {"name": "B", "cpus": [(0, 0), (1, 1)], "procs": [{"pid": 200, "app": 2, "threads": [201], "rank": 1, "nranks": 4},
                                                              {"pid": 300, "app": 2, "threads": [301], "rank": 2, "nranks": 4}]}]
    req = {"ovni": cat["ovni"]["version"], model: cat[model]["version"]}
    system = emusrv.System(spec, require=req)
    pool = ServerPool(exe, system.write(scratch.sub("trace-labels-" + model)), ["-l"])
    try:
        s = pool.local.streams
        sidx = [s["loom.A/proc.100/thread.101"], s["loom.B/proc.200/thread.201"], s["loom.B/proc.300/thread.301"]]
        names = [("alpha", "beta"), ("gamma", "delta"), ("epsilon", "zeta")]
        hist = [Ev(sidx[0], "OHx", i32(0, 101) + i64(0)), Ev(sidx[1], "OHx", i32(0, 201) + i64(0)), Ev(sidx[2], "OHx", i32(1, 301) + i64(0))]
        pay = (lambda t: u32(t, 0)) if m == "V" else (lambda t: u32(t))
        want = {}
        for k in range(3):
            for j, (tyi, t) in enumerate(((7, 1), (8, 2))):
                hist.append(Ev(sidx[k], m + "Yc", b"", 1, u32(tyi) + names[k][j].encode() + b"\0"))
                hist.append(Ev(sidx[k], m + "Tc", u32(t, tyi)))
        shown = {}
        for k in range(3):
            for j, t in enumerate((1, 2)):
                h2 = hist + [Ev(sidx[k], m + "Tx", pay(t))]
                hres, _ = pool.local.expand(h2, [], echo=True)
                ctx.add(evaluations=1, transitions=len(h2))
                if not hres.get("ok"):
                    ctx.violation("%s, three processes in two looms: executing task %d of process %d refused: %s" % (model, t, k, hres.get("msg")),
                                  {"engine": "E3", "check": "type-labels", "model": model, "history": [e.line() for e in h2]}, {"kind": "type-labels"})
                    return
                v = [val for (n, row, tm, ty, val) in hres["lines"] if n == "thread" and row == k + 1 and ty == tyid]
                shown[(k, j)] = v[-1] if v else None
                hist = h2 + [Ev(sidx[k], m + "Te", pay(t))]
        hist += [Ev(sidx[k], "OHe") for k in range(3)]
        _, res = pool.local.expand(hist, [Fin(1)])
        ctx.add(evaluations=1, transitions=len(hist))
        if not (res[0].ok and res[0].files):
            ctx.violation("%s, three processes in two looms: complete trace refused: %s" % (model, res[0].msg),
                          {"engine": "E3", "check": "type-labels", "model": model, "history": [e.line() for e in hist]}, {"kind": "type-labels"})
            return
        bad = []
        for nm in ("thread", "cpu"):
            labels = pv.parse_pcf(res[0].files[nm + ".pcf"]).get(tyid, (None, {}))[1]
            for (k, j), v in sorted(shown.items()):
                lab = labels.get(v)
                if v in (None, 0) or lab is None or names[k][j] not in lab:
                    bad.append("%s.pcf: process %d type %r shown as %r, labelled %r" % (nm, k, names[k][j], v, lab))
        if len(set(shown.values())) < 6:
            bad.append("six differently labelled types shown with the values %r" % (sorted(shown.values(), key=str),))
        if bad:
            ctx.violation("%s, three processes in two looms: %s" % (model, "; ".join(bad[:3])),
                          {"engine": "E3", "check": "type-labels", "model": model, "history": [e.line() for e in hist]}, {"kind": "type-labels"})
        ctx.part("type-labels-" + model, shown={"%d/%s" % (k, names[k][j]): v for (k, j), v in shown.items()})
    finally:
        pool.close()


def run(prop, tier):
    ctx = Ctx("C07", tier, "model_checking")
    scratch = Scratch("C07")
    try:
        build = Build()
        module_walk(ctx, build, tier)
        exe = build.harness("plain", "emu_server", ["emu_server.c"])
        cat = catalog.load_events()
        for m in ("V", "6"):
            if ctx.out_of_time(0.8):
                ctx.cap("end-to-end walk %s not started" % m)
                continue
            e2e_walk(ctx, build, scratch, exe, cat, m, tier)
            # the same acceptance condition and rows with the breakdown view switched on
            if not ctx.out_of_time(0.6):
                e2e_walk(ctx, build, scratch, exe, cat, m, tier, flags=("-l", "-b"))
            # the same acceptance condition while the first thread is cooling
            if not ctx.out_of_time(0.7):
                e2e_walk(ctx, build, scratch, exe, cat, m, tier, cool=True)
        for m in ("V", "6"):
            if ctx.out_of_time(0.8):
                ctx.cap("two-process end-to-end walk %s not started" % m)
                continue
            e2e_walk_2p(ctx, build, scratch, exe, cat, m, tier)
            type_labels(ctx, scratch, exe, cat, m)
        ctx.cov["rule"] = ("(A) task.c/body.c: for every flag combination of three tasks, breadth-first search over the reference body machine, every "
                           "operation x thread x task x body probed in every state, verdict and complete module state compared; (B) real emulator: "
                           "nOS-V (two normal + one parallel task) and Nanos6 task events on two threads, all task/body ids incl. illegal ones, "
                           "create of existing/unknown ids and one neutral region, verdict = body machine AND region-stack rule, rows compared; the same on two "
                           "processes with one thread each, where equal task and type ids are independent and app id, rank and type labels differ")
        ctx.cov["distinct_nontrivial"] = ctx.cov["states"]
        ctx.assumptions += ["reference = DESIGN.md A.4; the state after a refused operation is not explored (the emulator stops there)",
                            "end-to-end: at emulator level execute/end also enter/leave the 'task body' region of the subsystem stack (DESIGN 5, C07)",
                            "search bounded by depth (module: 5/7, end-to-end: 5/8) and <= 4 live bodies"]
        from checks import soak
        if not ctx.out_of_time(0.9):
            soak.run_for(ctx, build, scratch, "C07", tier)
        return ctx.finish()
    finally:
        scratch.cleanup()
