"""C16: ovnisort yields a stable sorted permutation and touches only what it must.
Every stream shape of a bounded grammar (plain / 16-byte-payload / jumbo events,
<= 2 unsorted regions, clocks from a small set) is sorted by the real ovnisort;
the result must be the stable sort of the original events (byte-identical events,
same size), sorting again changes nothing, check mode passes, ovniemu accepts;
with a look-back window that is too small it must fail rather than claim success."""
import os, itertools, shutil, struct
from lib.common import Ctx, Build, Scratch, InfraError, pmap
from lib import emusrv, obs
from lib.emusrv import i32, i64

BASE = 1000
KINDS = ("plain", "pay16", "jumbo")


FOREIGN_END = ("VU]", "DU]", "6U]")      # other models' events that look like sort markers
FOREIGN_START = ("6U[", "DU[", "VU[")


def mk_ev(kind, clock, tag, foreign=False):
    mcv = "OB" + chr(ord("a") + tag % 26)
    if foreign and tag % 2 == 0:
        mcv = FOREIGN_END[(tag // 2 - 1) % 3]
    elif foreign and tag % 4 == 1:
        mcv = FOREIGN_START[(tag // 4) % 3]
    if kind == "plain":
        return (mcv, clock, b"", None)
    if kind == "pay16":
        return (mcv, clock, bytes([tag] * 16), None)
    return (mcv, clock, b"", bytes([tag] * 9))


def shapes(nev, clocks, max_regions):
    """Token sequences: list of ('e', clock) / '[' / ']' with well-bracketed non-nested regions."""
    out = []
    for cl in itertools.product(clocks, repeat=nev):
        # region placements: choose up to max_regions disjoint intervals [a,b) over positions 0..nev
        ivs = [(a, b) for a in range(nev + 1) for b in range(a, nev + 1)]
        placements = [()]
        for iv in ivs:
            placements.append((iv,))
        if max_regions >= 2:
            for i1 in ivs:
                for i2 in ivs:
                    if i1[1] <= i2[0] and i1 != i2:
                        placements.append((i1, i2))
        for pl in placements:
            # precondition: events outside regions (markers included) are non-decreasing
            evs = build_stream(cl, pl, 1)
            last = 0
            ok = True
            inside = False
            for e in evs:
                if e[0] == "OU]":
                    inside = False
                if not inside:
                    if e[1] < last:
                        ok = False
                        break
                    last = e[1]
                if e[0] == "OU[":
                    inside = True
            if not ok:
                continue
            out.append((cl, pl))
    return out


def build_stream(cl, pl, tid, kinds_shift=0, head_region=False, foreign=False):
    """-> list of events (mcv, clock, payload, jumbo): OHx, the tokens with their region markers, OHe.
    Marker clocks: OU[ carries the current (outer) time, OU] the maximum clock seen so far, so that the
    sequence of out-of-region events (markers included) is non-decreasing.  With head_region the OHx
    itself sits inside the first region (the region then sorts to the very beginning of the stream)."""
    evs = []
    outer = BASE
    mx = BASE
    if head_region:
        # the opening marker carries the time at which the region was opened, later than the (delayed) events inside:
        # they all belong before the very first event of the stream
        outer = mx = BASE + 5
    first_end = sorted(pl)[0][1] if (head_region and pl) else 0
    late = (lambda p: 6 if (head_region and p >= first_end) else 0)      # what follows that region comes after its markers
    x = ("OHx", BASE, i32(-1, tid) + i64(0), None)
    placed_x = False
    if not head_region:
        evs.append(x)
        placed_x = True
    pos = 0
    for (a, b) in sorted(pl):
        while pos < a:
            c = BASE + cl[pos] + late(pos)
            evs.append(mk_ev(KINDS[(pos + kinds_shift) % 3], c, pos + 1, foreign))
            mx = max(mx, c)
            outer = c
            pos += 1
        evs.append(("OU[", outer, b"", None))
        if not placed_x:
            evs.append(x)
            placed_x = True
        while pos < b:
            c = BASE + cl[pos] + late(pos)
            evs.append(mk_ev(KINDS[(pos + kinds_shift) % 3], c, pos + 1, foreign))
            mx = max(mx, c)
            pos += 1
        outer = max(outer, mx)
        evs.append(("OU]", outer, b"", None))
    while pos < len(cl):
        c = BASE + cl[pos] + late(pos)
        evs.append(mk_ev(KINDS[(pos + kinds_shift) % 3], c, pos + 1, foreign))
        mx = max(mx, c)
        outer = c
        pos += 1
    if not placed_x:
        evs.insert(0, x)
    evs.append(("OHe", max(outer, mx) + 1, b"", None))
    return evs


def enc_all(evs):
    return obs.HDR + b"".join(obs.enc(m, c, p, j) for (m, c, p, j) in evs)


def stable_sorted(evs):
    return sorted(evs, key=lambda e: e[1])


def lookback_needed(evs):
    """max over regions of the number of events between the destination and the region end"""
    need = 0
    i = 0
    n = len(evs)
    while i < n:
        if evs[i][0] == "OU[":
            j = i + 1
            while j < n and evs[j][0] != "OU]":
                j += 1
            region = evs[i + 1:j]
            if region:
                mn = min(e[1] for e in region)
                k = j - 1
                while k >= 0 and not (evs[k][1] < mn):
                    k -= 1
                need = max(need, (j - 1) - k)
            i = j
        i += 1
    return need


def run(prop, tier):
    ctx = Ctx("C16", tier, "model_checking")
    scratch = Scratch("C16")
    try:
        build = Build()
        tools = build.tools("san", ["ovnisort", "ovniemu"])
        srt, emu = tools["ovnisort"], tools["ovniemu"]
        base = scratch.sub("t")
        if tier == "quick":
            sh = shapes(3, (0, 1, 2), 2) + shapes(4, (0, 1, 2), 1)
        else:
            sh = shapes(4, (0, 1, 2, 3), 2) + shapes(5, (0, 1, 2), 2) + shapes(6, (0, 1), 2)
        cases = []
        for (cl, pl) in sh:
            cases.append(("single", cl, pl, None))
        # the same streams with all clocks shifted down so that the earliest ones are exactly 0 (a clock of 0 is a clock like any other)
        for (cl, pl) in (sh if tier != "quick" else shapes(4, (0, 1, 2), 1)):
            if pl and any(b - a >= 2 and 0 in cl[a:b] for (a, b) in pl):
                cases.append(("zero", cl, pl, None))
        # only the base model's OU[ / OU] delimit a region: every second event is a ?U[ / ?U] event of another model
        # (these streams are sorted, re-sorted and checked with -c, not emulated: the foreign events are not nested properly)
        for (cl, pl) in (shapes(3, (0, 1, 2), 2) if tier == "quick" else sh):
            if pl:
                cases.append(("foreign", cl, pl, None))
        # two streams: the second one has a region that sorts to the very beginning of its stream
        two = shapes(3, (0, 1, 2), 1) if tier == "quick" else shapes(4, (0, 1, 2), 1)
        for (cl, pl) in two:
            if pl and pl[0][0] == 0 and pl[0][1] > 0:
                cases.append(("two", cl, pl, None))
                # the same trace with the second stream's thread directory (or the whole process directory) living elsewhere
                # and reached through a symbolic link
                cases.append(("linked", cl, pl, ("thread", "proc")[len(cases) % 2]))
        meta = lambda tid, first: obs.stream_meta(tid, 10, "L", cpus=[(0, 0)] if first else None)

        def streams_of_case(case):
            kind, cl, pl, _ = case
            streams = []
            if kind in ("two", "linked"):
                first = build_stream((0, 1, 2, 2), ((1, 3),), 100)
                streams.append((obs.relpath("L", 10, 100), first, True))
                streams.append((obs.relpath("L", 10, 200), build_stream(cl, pl, 200, 1, head_region=True), False))
            elif kind == "foreign":
                streams.append((obs.relpath("L", 10, 100), build_stream(cl, pl, 100, foreign=True), True))
            elif kind == "zero":
                streams.append((obs.relpath("L", 10, 100), [(m, c - BASE, p, j) for (m, c, p, j) in build_stream(cl, pl, 100)], True))
            else:
                streams.append((obs.relpath("L", 10, 100), build_stream(cl, pl, 100), True))
            return streams

        def one(case):
            kind, cl, pl, _ = case
            td = os.path.join(base, "w%d" % os.getpid())
            shutil.rmtree(td, ignore_errors=True)
            streams = streams_of_case(case)
            for rel, evs, first in streams:
                obs.write_stream(td, rel, meta(int(rel.split(".")[-1]), first), enc_all(evs))
            if kind == "linked":
                ext = td + "-ext"
                shutil.rmtree(ext, ignore_errors=True)
                os.makedirs(ext)
                src = os.path.join(td, streams[1][0]) if case[3] == "thread" else os.path.dirname(os.path.join(td, streams[1][0]))
                dst = os.path.join(ext, os.path.basename(src))
                shutil.move(src, dst)
                os.symlink(dst, src)
            out = []
            need = max(lookback_needed(e) for _, e, _ in streams)
            rc, o, err = emusrv.run_tool(srt, [td])
            if rc != 0:
                return "ovnisort failed (exit %r) although every region fits in the look-back window: %s" % (rc, err[-200:])
            for rel, evs, first in streams:
                got = open(os.path.join(td, rel, "stream.obs"), "rb").read()
                want = enc_all(stable_sorted(evs))
                if len(got) != len(want):
                    return "stream %s changed size %d -> %d" % (rel, len(want), len(got))
                if got != want:
                    try:
                        g = [(e.mcv, e.clock - BASE) for e in obs.parse(got)]
                    except obs.ParseError as ex:
                        g = "unparsable: %s" % ex
                    w = [(e[0], e[1] - BASE) for e in stable_sorted(evs)]
                    return "stream %s is %r, the stable sort of the original events is %r" % (rel, g, w)
            snap = {rel: open(os.path.join(td, rel, "stream.obs"), "rb").read() for rel, _, _ in streams}
            rc, o, err = emusrv.run_tool(srt, [td])
            if rc != 0:
                return "second ovnisort run failed (exit %r)" % rc
            for rel in snap:
                if open(os.path.join(td, rel, "stream.obs"), "rb").read() != snap[rel]:
                    return "sorting again changed stream %s" % rel
            rc, o, err = emusrv.run_tool(srt, ["-c", td])
            if rc != 0:
                return "ovnisort -c rejects the sorted trace (exit %r): %s" % (rc, err[-160:])
            if kind == "foreign":
                return None
            rc, o, err = emusrv.run_tool(emu, [td])
            if rc != 0:
                e = [l for l in err.split("\n") if "ERROR" in l][:1]
                return "ovniemu rejects the sorted trace (exit %r): %s" % (rc, e)
            return None
        for case, msg in zip(cases, pmap(one, cases)):
            ctx.add(evaluations=1, transitions=4, traces_validated_against_impl=1)
            if msg:
                ctx.violation("stream clocks=%r regions=%r (%s): %s" % (case[1], case[2], case[0], msg),
                              {"engine": "E6 real ovnisort", "kind": case[0], "clocks": case[1], "regions": case[2], "linked": case[3]}, {"kind": "sort"})
        ctx.add(states=len(cases))
        ctx.part("sortable", cases=len(cases))
        # the environment may complete a pwrite() only partly: one short count (1 byte / half / all but one) at the first,
        # second or third write of the sorted region must be invisible
        sw = [(c, k, how) for c in cases[::(9 if tier == "quick" else 3)] if c[2] for k in (1, 2, 3) for how in (1, 2, 3)]

        srt_io = build.tool_heapbuf("sanx", "ovnisort")      # this build routes pwrite() through harness/mmap_heap.c

        def one_sw(j):
            case, k, how = j
            td = os.path.join(base, "p%d" % os.getpid())
            shutil.rmtree(td, ignore_errors=True)
            streams = streams_of_case(case)
            for rel, evs, first in streams:
                obs.write_stream(td, rel, meta(int(rel.split(".")[-1]), first), enc_all(evs))
            rc, o, err = emusrv.run_tool(srt_io, [td], env_extra={"VERIF_SHORT_PWRITE": "%d:%d" % (k, how)})
            if rc != 0:
                return "ovnisort fails (exit %r) when the %d-th pwrite() completes partly: %s" % (rc, k, err[-160:])
            for rel, evs, first in streams:
                if open(os.path.join(td, rel, "stream.obs"), "rb").read() != enc_all(stable_sorted(evs)):
                    return "stream %s is not the stable sort of its events after the %d-th pwrite() completed partly (mode %d)" % (rel, k, how)
            return None
        for j, msg in zip(sw, pmap(one_sw, sw)):
            ctx.add(evaluations=1, transitions=1)
            if msg:
                ctx.violation("stream clocks=%r regions=%r (%s): %s" % (j[0][1], j[0][2], j[0][0], msg),
                              {"engine": "E6 real ovnisort", "kind": j[0][0], "clocks": j[0][1], "regions": j[0][2], "short_pwrite": [j[1], j[2]]}, {"kind": "short-pwrite"})
        ctx.part("short-pwrite", cases=len(sw))
        # look-back window too small: must not claim success on an unsorted stream
        lb = []
        for (cl, pl) in (shapes(5, (0, 1, 2), 1) if tier == "quick" else shapes(6, (0, 1, 2), 1)):
            if not pl:
                continue
            for n in (3, 4, 6):
                lb.append((cl, pl, n))
        # every position of a region relative to the window: k ordered events, a region of two events that belong two events
        # back, two more events; and the same region repeated along a longer stream (the window wraps several times)
        nring = 0
        for n in ((8, 9) if tier == "quick" else (7, 8, 9, 12, 16)):
            for k in range(2, 3 * n + 2):
                cl = tuple(2 * i + 2 for i in range(k)) + (2 * k - 1, 2 * k - 1) + (2 * k + 2, 2 * k + 4)
                lb.append((cl, ((k, k + 2),), n))
                nring += 1
            for period in (n - 2, n - 1, n, n + 1):
                cl, pl = [], []
                c = 0
                for rep in range(4):
                    for i in range(period - 2):
                        c += 2
                        cl.append(c)
                    pl.append((len(cl), len(cl) + 2))
                    cl += [c - 1, c - 1]
                lb.append((tuple(cl), tuple(pl), n))
                nring += 1

        def one_lb(c):
            cl, pl, n = c
            td = os.path.join(base, "l%d" % os.getpid())
            shutil.rmtree(td, ignore_errors=True)
            evs = build_stream(cl, pl, 100)
            rel = obs.relpath("L", 10, 100)
            obs.write_stream(td, rel, meta(100, True), enc_all(evs))
            need = lookback_needed(evs)
            rc, o, err = emusrv.run_tool(srt, ["-n", str(n), td])
            if rc not in (0, 1):
                return "ovnisort -n %d died (exit %r): %s" % (n, rc, err[-200:])
            got = open(os.path.join(td, rel, "stream.obs"), "rb").read()
            srt_ok = got == enc_all(stable_sorted(evs))
            if rc == 0 and not srt_ok:
                return "ovnisort -n %d exits 0 but the stream is not the stable sort (needs %d events of look-back)" % (n, need)
            if rc != 0 and need <= n - 3:
                return "ovnisort -n %d fails although the proper position is only %d events back" % (n, need)
            if rc != 0 and "ERROR" not in err:
                return "ovnisort -n %d fails without saying so" % n
            return None
        for c, msg in zip(lb, pmap(one_lb, lb)):
            ctx.add(evaluations=1, transitions=1)
            if msg:
                ctx.violation("look-back: clocks=%r regions=%r: %s" % (c[0], c[1], msg),
                              {"engine": "E6 real ovnisort", "clocks": c[0], "regions": c[1], "n": c[2]}, {"kind": "lookback"})
        ctx.part("lookback", cases=len(lb), window_positions=nring)
        # small windows with two streams: the first stream holds more events than the window (the ring has wrapped when the
        # second stream starts), the second has a region that belongs at its very beginning
        lb2 = [(cl, pl, n) for (cl, pl) in two for n in (5, 6, 8) if pl and pl[0][0] == 0 and pl[0][1] > 0]

        def one_lb2(c):
            cl, pl, n = c
            td = os.path.join(base, "m%d" % os.getpid())
            shutil.rmtree(td, ignore_errors=True)
            first = build_stream((0, 1, 2, 2, 3, 3, 4, 5), ((1, 3),), 100)
            second = build_stream(cl, pl, 200, 1, head_region=True)
            streams = [(obs.relpath("L", 10, 100), first, True), (obs.relpath("L", 10, 200), second, False)]
            for rel, evs, isfirst in streams:
                obs.write_stream(td, rel, meta(int(rel.split(".")[-1]), isfirst), enc_all(evs))
            need = max(lookback_needed(e) for _, e, _ in streams)
            rc, o, err = emusrv.run_tool(srt, ["-n", str(n), td])
            if rc not in (0, 1):
                return "ovnisort -n %d died (exit %r): %s" % (n, rc, err[-200:])
            ok = all(open(os.path.join(td, rel, "stream.obs"), "rb").read() == enc_all(stable_sorted(evs)) for rel, evs, _ in streams)
            if rc == 0 and not ok:
                return "ovnisort -n %d exits 0 but a stream is not the stable sort of its events" % n
            if rc != 0 and need <= n - 3:
                return "ovnisort -n %d fails although every region needs at most %d events of look-back: %s" % (n, need, err[-160:])
            return None
        for c, msg in zip(lb2, pmap(one_lb2, lb2)):
            ctx.add(evaluations=1, transitions=1)
            if msg:
                ctx.violation("look-back, two streams: second stream clocks=%r regions=%r: %s" % (c[0], c[1], msg),
                              {"engine": "E6 real ovnisort", "clocks": c[0], "regions": c[1], "n": c[2], "streams": 2}, {"kind": "lookback-2"})
        ctx.part("lookback-two-streams", cases=len(lb2))
        # many streams: a trace of 60 threads (regions in every seventh one) sorted, checked and emulated by tools that may hold
        # only 40 descriptors at a time - what a trace of thousands of threads is to the usual limit of 1024
        def many(_):
            td = os.path.join(base, "many")
            shutil.rmtree(td, ignore_errors=True)
            want = {}
            for k in range(60):
                tid = 1000 + k
                cl, pl = ((0, 2, 1), ((1, 3),)) if k % 7 == 3 else ((0, 1, 2), ())
                evs = build_stream(cl, pl, tid)
                # one thread after the other on the only CPU
                evs = [(m, c + 10 * k, (i32(0, tid) + i64(0)) if m == "OHx" else p, j) for (m, c, p, j) in evs]
                rel = obs.relpath("L", 10, tid)
                obs.write_stream(td, rel, meta(tid, k == 0), enc_all(evs))
                want[rel] = enc_all(stable_sorted(evs))
            for args, exe in ((["-c"], srt), ([], srt), (["-c"], srt), ([], emu)):
                rc, o, err = emusrv.run_tool(exe, args + [td], nofile=40, timeout=120)
                expect = 1 if (args == ["-c"] and exe is srt and not many.sorted) else 0
                if exe is srt and args == []:
                    many.sorted = True
                if rc != expect:
                    e = [l for l in err.split("\n") if "ERROR" in l or "FATAL" in l][:2]
                    return "%s %s on a trace of 60 streams with 40 descriptors allowed: exit %r, expected %d: %s" % (os.path.basename(exe).split("-")[0], " ".join(args), rc, expect, " | ".join(e)[:300])
            for rel, w in want.items():
                if open(os.path.join(td, rel, "stream.obs"), "rb").read() != w:
                    return "stream %s of the 60-stream trace is not the stable sort of its events" % rel
            return None
        many.sorted = False
        msg = many(None)
        ctx.add(evaluations=4, transitions=4)
        if msg:
            ctx.violation("many streams: " + msg, {"engine": "E6 real ovnisort", "streams": 60, "nofile": 40}, {"kind": "many-streams"})
        ctx.part("many-streams", streams=60, descriptors_allowed=40)
        # a stream that ends inside an unsorted region (the closing marker never came): ovnisort must sort it or fail -
        # "when it cannot sort it fails and says so"; exit 0 must leave a sorted stream
        opn = [(cl, pl) for (cl, pl) in (shapes(3, (0, 1, 2), 1) if tier == "quick" else shapes(4, (0, 1, 2), 1)) if pl and pl[0][1] == len(cl)]

        def one_open(c):
            cl, pl = c
            td = os.path.join(base, "o%d" % os.getpid())
            shutil.rmtree(td, ignore_errors=True)
            evs = [e for e in build_stream(cl, pl, 100) if e[0] != "OU]"]
            rel = obs.relpath("L", 10, 100)
            obs.write_stream(td, rel, meta(100, True), enc_all(evs))
            rc, o, err = emusrv.run_tool(srt, [td])
            if rc not in (0, 1):
                return "ovnisort died (exit %r): %s" % (rc, err[-200:])
            got = open(os.path.join(td, rel, "stream.obs"), "rb").read()
            try:
                clocks = [e.clock for e in obs.parse(got)]
            except obs.ParseError as ex:
                return "ovnisort left an undecodable stream: %s" % ex
            if rc == 0 and clocks != sorted(clocks):
                return "ovnisort exits 0 without a word but the stream is not sorted (clocks %r)" % clocks
            if rc != 0 and "ERROR" not in err:
                return "ovnisort fails without saying so"
            return None
        for c, msg in zip(opn, pmap(one_open, opn)):
            ctx.add(evaluations=1, transitions=1)
            if msg:
                ctx.violation("stream ending inside a region: clocks=%r region from %d: %s" % (c[0], c[1][0][0], msg),
                              {"engine": "E6 real ovnisort", "clocks": c[0], "regions": c[1], "unterminated": True}, {"kind": "open-region"})
        ctx.part("unterminated-region", cases=len(opn))
        ctx.sample({"clocks": sh[len(sh) // 2][0], "regions": sh[len(sh) // 2][1], "events": [(e[0], e[1]) for e in build_stream(sh[len(sh) // 2][0], sh[len(sh) // 2][1], 100)]})
        ctx.cov["rule"] = ("every stream OHx, <= 3-4 (quick) / 4-6 (thorough) events cycling through plain, 16-byte-payload and jumbo encodings with clocks from a small "
                           "set, every placement of <= 2 non-nested OU[ OU] regions (incl. empty ones) such that out-of-region events are sorted, OHe; plus two-stream "
                           "traces whose second stream sorts to its very beginning; each sorted by the real ovnisort (ASan+UBSan), compared with the stable sort, "
                           "re-sorted, checked with -c and emulated; the one-stream shapes again with ?U[ / ?U] events of other models among the events (not emulated); and every one-region shape with look-back sizes 3, 4, 6")
        ctx.cov["distinct_nontrivial"] = len(cases) + len(lb)
        return ctx.finish()
    finally:
        scratch.cleanup()
