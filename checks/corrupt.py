"""C12 (invalid traces are rejected) and C19 (tools are total): deterministic,
exhaustive single-corruption enumeration of four multi-model base traces, run
through the real tools built from the tree."""
import os, shutil, json, itertools, struct, time
from lib.common import Ctx, Build, Scratch, InfraError, pmap, plan_of
from lib import emusrv, catalog, mutate, obs


def write_files(td, files):
    if os.path.exists(td):
        shutil.rmtree(td)
    for rel, data in files.items():
        p = os.path.join(td, rel)
        os.makedirs(os.path.dirname(p), exist_ok=True)
        with open(p, "wb") as f:
            f.write(data)


def run_c12(prop, tier):
    ctx = Ctx("C12", tier, "fault_enumeration")
    tier = plan_of("C12", tier)
    ctx.cov["plan"] = tier
    scratch = Scratch("C12")
    try:
        build = Build()
        emu = build.tool("plain", "ovniemu")
        cat = catalog.load_events()
        versions = {m: d["version"] for m, d in cat.items()}
        traces = mutate.base_traces(versions)
        # a fifth base, emulated with the breakdown view (-b), for which every thread must carry nosv.can_breakdown
        traces["bd2"] = mutate.base_traces(versions, for_c19=True)["bd2"]
        eflags = lambda name: ["-l", "-b"] if name == "bd2" else ["-l"]
        base = scratch.sub("t")
        jobs = []
        for name, tr in traces.items():
            td = os.path.join(base, "base")
            write_files(td, mutate.files_of(tr))
            rc, out, err = emusrv.run_tool(emu, eflags(name) + [td])
            if rc != 0:
                raise InfraError("base trace %s is not accepted by ovniemu -l: %s" % (name, err[-500:]))
            for (label, files, verdict) in mutate.operators(tr, tier):
                if tier == "quick" and label.startswith("trunc:"):
                    # quick: every offset of the first stream, boundaries +-2 bytes of the others
                    pass
                jobs.append((name, label, files, verdict))
        # thorough: a structurally invalid stream stays invalid whatever happens to the files of the OTHER streams:
        # representative invalid corruptions of one stream.obs (cut inside every event, every swap, every header byte)
        # x every single corruption of another stream's files
        npairs = 0
        if tier != "quick":
            for name, tr in traces.items():
                if len(tr) < 2:
                    continue
                basef = mutate.files_of(tr)
                bounds = {rel: set(mutate.boundaries(t["events"])) for rel, t in tr.items()}
                singles = []
                for (label, files, verdict) in mutate.operators(tr, tier):
                    changed = [p for p in basef if files.get(p) != basef[p]] + [p for p in files if p not in basef]
                    if len(changed) == 1:
                        singles.append((label, changed[0], files[changed[0]] if changed[0] in files else None, verdict))
                for (la, pa, da, va) in singles:
                    k = la.split(":")[0]
                    if va != "invalid" or not pa.endswith("stream.obs") or k not in ("trunc", "swap", "hdr"):
                        continue
                    if k == "trunc" and (int(la.split(":")[-1]) - 1) not in bounds[la.split(":")[1]]:
                        continue        # one cut per event: one byte into it
                    rela = pa.rsplit("/", 1)[0]
                    for (lb, pb, db, vb) in singles:
                        if pb.rsplit("/", 1)[0] == rela:
                            continue
                        f = dict(basef)
                        f[pa] = da
                        if db is None:
                            f.pop(pb, None)
                        else:
                            f[pb] = db
                        jobs.append((name, "pair:%s+%s" % (la, lb), f, "invalid"))
                        npairs += 1

        def one(j):
            name, label, files, verdict = j
            td = os.path.join(base, "w%d" % os.getpid())
            write_files(td, files)
            rc, out, err = emusrv.run_tool(emu, eflags(name) + [td], timeout=30)
            ok = "emulation finished ok" in err
            e = [l for l in err.split("\n") if "ERROR" in l][:1]
            return rc, ok, (e[0] if e else "")[:200]
        kinds = {}
        ninv = 0
        for j, (rc, ok, msg) in zip(jobs, pmap(one, jobs)):
            name, label, files, verdict = j
            k = label.split(":")[0]
            d = kinds.setdefault(k, {"cases": 0, "invalid": 0, "rejected": 0})
            d["cases"] += 1
            ctx.add(evaluations=1)
            if rc != 0:
                d["rejected"] += 1
            if verdict == "invalid":
                ninv += 1
                d["invalid"] += 1
                if rc == 0 or ok:
                    ctx.violation("base %s, corruption %s: invalid by the specification but ovniemu -l exits %r%s" % (
                        name, label, rc, " and prints 'emulation finished ok'" if ok else ""),
                        {"engine": "E6 real ovniemu", "base": name, "corruption": label, "tool": "ovniemu -l"},
                        {"kind": "accepted-invalid", "op": k, "detail": ":".join(label.split(":")[2:]) if k in ("nojumbo",) else k})
        ctx.cov["distinct_nontrivial"] = ninv
        ctx.cov["by_operator"] = kinds
        ctx.cov["rule"] = ("five base traces (nOS-V with jumbo type events and a task; Nanos6; MPI+TAMPI+marks; two looms with ranks, OpenMP/NODES/kernel; two looms of nOS-V tasks emulated with -b) x "
                           "every single corruption: truncation at every byte offset, swap of every adjacent pair of events with different clocks, every header "
                           "byte x {00,ff,+1}, model byte of every event -> not-required / unregistered model, unknown value, every wrong payload size of "
                           "size-checked events, jumbo type event replaced by a non-jumbo one, removal / 6 replacement values of every metadata key, truncated JSON; "
                           "thorough: representative invalid corruptions of one stream combined with every corruption of another stream's files (%d pairs); " % npairs +
                           "non-trivial = corruptions that are invalid by the specification (a demand exists)")
        ctx.sample({"base": "nosv", "corruption": "trunc:loom.n0/proc.100/thread.101:57", "demand": "rejected"})
        ctx.sample({"base": "mpi", "corruption": "meta-rm:loom.n0/proc.100/thread.101:ovni.finished", "demand": "rejected"})
        ctx.assumptions += ["validity is classified by lib/mutate.py from the trace specification; corruptions that may leave a valid trace carry no demand",
                            "single corruptions only"]
        return ctx.finish()
    finally:
        scratch.cleanup()


TOOL_ARGS = {"ovniemu": ["-l"], "ovnidump": [], "ovnitop": [], "ovnisort": []}
# the emulator again with its debug output switched on (the messages format event arguments), for the operators that
# change what an event carries
DEBUG_OPS = {"nopayload", "size", "tojumbo", "phantom-payload", "flags", "jdata", "jnoterm"}
# the other modes of the tools: hexadecimal dump, check-only and small-window sort, every model forced on with the breakdown view
EXTRA_RUNS = [("ovnidump", ["-x"]), ("ovnisort", ["-c"]), ("ovnisort", ["-n", "4"]), ("ovniemu", ["-a", "-b"])]


def run_c19(prop, tier):
    ctx = Ctx("C19", tier, "exploration")
    scratch = Scratch("C19")
    try:
        build = Build()
        tools = {n: build.tool_heapbuf("sanx", n) for n in TOOL_ARGS}
        plain_emu = build.tool("plain", "ovniemu")
        cat = catalog.load_events()
        versions = {m: d["version"] for m, d in cat.items()}
        traces = mutate.base_traces(versions, for_c19=True)
        base = scratch.sub("t")
        jobs = []
        seen = set()
        for name, tr in traces.items():
            for (label, files, verdict) in mutate.operators(tr, tier, for_c19=True):
                k = label.split(":")[0]
                if tier == "quick" and k == "trunc":
                    # quick tier: truncations only around event boundaries and in the header
                    off = int(label.split(":")[-1])
                    rel = label.split(":")[1]
                    b = mutate.boundaries(tr[rel]["events"])
                    if not (off < 12 or any(abs(off - x) <= 2 for x in b) or any(off - x in (4, 11, 12, 15, 16, 17) for x in b)):
                        continue
                if tier == "quick" and k in ("meta-set",) and not label.endswith(("=null", '="x"', "=-1")):
                    continue
                jobs.append((name, label, files))
        # pairs of single corruptions that touch different files of the same trace (thorough tier)
        if tier != "quick":
            for name, tr in traces.items():
                basef = mutate.files_of(tr)
                singles = []
                for (label, files, verdict) in mutate.operators(tr, "quick", for_c19=True):
                    k = label.split(":")[0]
                    if k in ("jsize", "tojumbo", "nopayload", "jdata", "phantom-payload", "meta-shape", "meta-val", "model", "nojumbo", "swap") or \
                            (k == "flags" and label.endswith(("0x10", "0x1f", "0xff"))) or (k == "meta-set" and label.endswith(("=null", "=-1"))):
                        changed = [p for p in files if files.get(p) != basef.get(p)] + [p for p in basef if p not in files]
                        if len(changed) == 1:
                            singles.append((label, changed[0], files))
                for i in range(len(singles)):
                    for j in range(i + 1, len(singles)):
                        a, b = singles[i], singles[j]
                        if a[1] == b[1]:
                            continue
                        # one stream.obs corruption combined with one stream.json corruption
                        if a[1].endswith(".obs") == b[1].endswith(".obs"):
                            continue
                        f = dict(basef)
                        f[a[1]] = a[2][a[1]]
                        f[b[1]] = b[2][b[1]]
                        jobs.append((name, "pair:%s+%s" % (a[0], b[0]), f))
        # grammar-bounded streams after a valid prefix
        atoms = grammar_atoms()
        depth = 2 if tier == "quick" else 3
        for name in ("nosv",):
            tr = traces[name]
            rel = "loom.n0/proc.100/thread.101"
            prefix = tr[rel]["events"][:2]
            bfiles = mutate.files_of(tr)
            for combo in itertools.product(range(len(atoms)), repeat=depth):
                if tier != "quick" and depth == 3 and combo[0] > 14:
                    continue
                body = mutate.encode_stream(prefix) + b"".join(atoms[i][1] for i in combo)
                f = dict(bfiles)
                f[rel + "/stream.obs"] = body
                jobs.append((name, "grammar:" + "+".join(atoms[i][0] for i in combo), f))
        tnames = list(TOOL_ARGS)
        only = os.environ.get("VERIF_C19_OPS")
        if only:
            jobs = [j for j in jobs if j[1].split(":")[0] in only.split(",")]
            ctx.cap("debug filter VERIF_C19_OPS=%s" % only)
        classes = {}

        t_end = ctx.t0 + ctx.deadline_s * 0.8
        hangs = {}

        def one(j):
            name, label, files = j
            if time.time() > t_end:
                return None         # deadline: reported as a cap, never as a pass
            res = []
            runs = [(t, TOOL_ARGS[t] if not (t == "ovniemu" and name == "bd2") else ["-l", "-b"]) for t in tnames]
            if label.split(":")[0] in DEBUG_OPS:
                runs.append(("ovniemu", ["-l", "-d"]))
                # ovnisort prints its debug messages when OVNI_DEBUG is set
                runs.append(("ovnisort", ["ENV:OVNI_DEBUG=1"]))
            runs += EXTRA_RUNS
            for (t, targs) in runs:
                td = os.path.join(base, "w%d" % os.getpid())
                write_files(td, files)      # ovnisort rewrites streams: fresh copy per tool
                envx = {"ASAN_OPTIONS": "detect_leaks=0:abort_on_error=1:allocator_may_return_null=1"}
                envx.update(a[4:].split("=", 1) for a in targs if a.startswith("ENV:"))
                rargs = [a for a in targs if not a.startswith("ENV:")]
                rc, out, err = emusrv.run_tool(tools[t], rargs + [td], timeout=8, env_extra=envx)
                if rc == "timeout" and hangs.get(t, 0) < 2:
                    # a deterministic case that timed out is re-run alone with a much longer limit before it is called a hang
                    # (once this worker has confirmed two hangs of the tool that way, further 8 s timeouts are reported as they are)
                    write_files(td, files)
                    rc, out, err = emusrv.run_tool(tools[t], rargs + [td], timeout=(40 if tier == "quick" else 90), env_extra=envx)
                if rc == "timeout":
                    hangs[t] = hangs.get(t, 0) + 1
                san = ""
                if "AddressSanitizer" in err or "runtime error" in err:
                    for l in err.split("\n"):
                        if "ERROR: AddressSanitizer" in l or "runtime error" in l or l.strip().startswith("#0") or l.strip().startswith("#1 "):
                            san += l.strip()[:160] + " | "
                res.append((t if targs == TOOL_ARGS[t] else (t + " " + " ".join(a for a in targs if a != "-l")).strip(), rc, san[:500], err[-200:] if rc not in (0, 1) else "", targs))
            return res
        kinds = {}
        outcomes = set()
        nskip = 0
        for j, res in zip(jobs, pmap(one, jobs)):
            name, label, files = j
            k = label.split(":")[0]
            if res is None:
                nskip += 1
                continue
            kinds[k] = kinds.get(k, 0) + 1
            for (t, rc, san, tail, targs) in res:
                ctx.add(evaluations=1)
                outcomes.add((t, rc if rc in (0, 1) else "bad"))
                if rc in (0, 1) and not san:
                    continue
                site = crash_site(san, tail)
                ck = "%s/%s/%s" % (t, site, "hang" if rc == "timeout" else ("san" if san else "status %r" % rc))
                classes.setdefault(ck, []).append(label)
                what = "timeout (hang)" if rc == "timeout" else ("sanitizer report" if san else "died with status %r" % rc)
                ctx.violation("%s on base %s corruption %s: %s %s" % (t, name, label, what, (san or tail)[:300]),
                              {"engine": "E6 tools (ASan+UBSan, exact-size heap stream buffers)", "tool": t, "args": targs, "base": name, "corruption": label},
                              {"kind": "tool-not-total", "tool": t, "op": k, "site": site})
        if nskip:
            ctx.cap("%d of %d cases not run: deadline reached (hanging tools consume the budget)" % (nskip, len(jobs)))
        ctx.cov["by_operator"] = kinds
        ctx.cov["violation_classes"] = {k: {"count": len(v), "first": v[:3]} for k, v in classes.items()}
        ctx.cov["distinct_outcomes"] = len(outcomes)
        ctx.cov["distinct_nontrivial"] = len(jobs)
        ctx.cov["exhaustive"] = ctx.cov["exhaustive"] and True
        ctx.cov["rule"] = ("every single corruption of C12's operator set plus: all 256 (quick: 12) flag bytes of every event, clock bytes, 13 abusive jumbo size fields, "
                           "jumbo data cut/unterminated, events stripped of their payload, phantom payload at the end, 8 loom_cpus shapes and 15 abusive metadata "
                           "values, non-object / deeply nested JSON, missing/empty stream.obs; plus every stream of %d atoms from %d valid and malformed event "
                           "encodings after a valid prefix; each case through ovniemu -l (and -l -d where an event's content changes; -a -b), ovnidump (also -x), ovnitop and ovnisort (also -c and -n 4) built with ASan+UBSan and exact-size "
                           "heap stream buffers; the claim is about this space, not about all byte strings" % (depth, len(atoms)))
        ctx.sample({"base": "nosv", "corruption": "jsize:loom.n0/proc.100/thread.101:1:4294967280", "tools": tnames})
        ctx.sample({"corruption": "grammar:" + "+".join(a[0] for a in atoms[:2])})
        ctx.assumptions += ["exit status 0 or 1 within 15 s, no signal, no sanitizer report; die()->abort() counts as a crash"]
        return ctx.finish()
    finally:
        scratch.cleanup()


def crash_site(san, tail):
    """coarse, stable identification of where a tool died (for known-finding matching)"""
    import re
    m = re.search(r"in (\w+) ", san)
    if m:
        return m.group(1)
    m = re.search(r"FATAL: (\w+):", tail)
    if m:
        return "die:" + m.group(1)
    return "?"


def grammar_atoms():
    E = obs.enc
    c = 200
    atoms = [
        ("OHp", E("OHp", c)), ("OHr", E("OHr", c)), ("OHe", E("OHe", c)), ("OHx0", E("OHx", c)),
        ("OHx4", E("OHx", c, struct.pack("<i", 0))), ("OHx16", E("OHx", c, struct.pack("<iiq", 1, 101, 0))),
        ("OAs0", E("OAs", c)), ("OAs4", E("OAs", c, struct.pack("<i", 1))), ("OAr8", E("OAr", c, struct.pack("<ii", 1, 102))),
        ("OAr4", E("OAr", c, struct.pack("<i", 0))), ("OM[12", E("OM[", c, struct.pack("<qi", 1, 0))), ("OM[0", E("OM[", c)),
        ("VTc8", E("VTc", c, struct.pack("<II", 5, 1))), ("VTx8", E("VTx", c, struct.pack("<II", 5, 0))), ("VTx0", E("VTx", c)),
        ("VTx4", E("VTx", c, struct.pack("<I", 5))), ("VTe8", E("VTe", c, struct.pack("<II", 5, 0))),
        ("VYcJ", E("VYc", c, b"", struct.pack("<I", 9) + b"zz\0")), ("VYcJ0", E("VYc", c, b"", b"")), ("VYcJ3", E("VYc", c, b"", b"abc")),
        ("VYcJnoterm", E("VYc", c, b"", struct.pack("<I", 8) + b"zzzz")), ("VYc4", E("VYc", c, struct.pack("<I", 9))),
        ("VAr", E("VAr", c)), ("VAR", E("VAR", c)), ("OB.", E("OB.", c)), ("OU[", E("OU[", c)), ("OF[", E("OF[", c)), ("OF]", E("OF]", c)),
        ("back", E("OHp", 1)), ("KCO", E("KCO", c)), ("ZZZ", E("ZZZ", c)), ("6Tx4", E("6Tx", c, struct.pack("<I", 1))),
        ("hdr-only", E("OHp", c)[:12][:7]), ("jumbo-huge", bytes([0x13]) + b"VYc" + struct.pack("<Q", c) + struct.pack("<I", 0xfffffff0)),
        ("jumbo-2g", bytes([0x13]) + b"VYc" + struct.pack("<Q", c) + struct.pack("<I", 0x7ffffff0)),
        ("flags-ff", bytes([0xff]) + b"OHp" + struct.pack("<Q", c)), ("pay16-short", bytes([0x0f]) + b"OHx" + struct.pack("<Q", c) + b"ab"),
        ("OHC", E("OHC", c, struct.pack("<iQ", 0, 0))), ("OCn", E("OCn", c, struct.pack("<i", 4))), ("VPp", E("VPp", c)),
    ]
    return atoms


def run(prop, tier):
    return run_c12(prop, tier) if prop == "C12" else run_c19(prop, tier)
