"""C18: the events the tools list, the events the handlers accept and the events
ovnidump can decode coincide, for every model (all printable three-character codes)."""
import os, re, itertools, struct, json, subprocess
from lib.common import Ctx, Build, Scratch, InfraError, pmap, VERIF, plan_of
from lib import emusrv, catalog, obs
from lib.emusrv import Ev, Fin, i32, i64, u32
from lib.explore import ServerPool

PRINTABLE = [chr(c) for c in range(33, 127)]
SPEC = [{"name": "A", "cpus": [(0, 0), (1, 1)], "procs": [{"pid": 100, "threads": [101, 102], "rank": 0, "nranks": 1}]}]
MARKS = {"*": {"ovni": {"mark": {"0": {"title": "m0", "chan_type": "stack"}, "1": {"title": "m1", "chan_type": "single"}}}}}
# base-model categories whose value byte is ignored (property text) and legacy codes accepted with a warning (golden)
IGNORED_VALUE = {"O": "BU"}


def arg_bytes(args, choice):
    """payload for declared args; choice: function (type,name,index)->int"""
    out = b""
    for i, (ty, name) in enumerate(args):
        v = choice(ty, name, i)
        if ty == "str":
            out += str_value(v).encode() + b"\0"
        else:
            size = catalog.TYPE_SIZE[ty]
            out += (v & (2 ** (8 * size) - 1)).to_bytes(size, "little")
    return out


# labels with characters that mean something to printf, to a shell or to a parser: they are data
SPECIAL_STR = {-101: "100% done", -102: "%d %s %x %n", -103: "a%%b", -104: "50%", -105: "x:y;z, \"q\" (r) [s] {t}", -106: "%5$s%hhn"}


def str_value(v):
    """string argument for value v: 'lbl<n>' for small codes, a label of exactly v>>8 characters otherwise"""
    if v in SPECIAL_STR:
        return SPECIAL_STR[v]
    if v >> 8 and v > 0 and (v >> 8) < 2000:
        n = v >> 8
        return ("L%d_" % n + "abcdefghij" * 200)[:n]
    return "lbl%d" % (v & 0xff)


def mk_event(si, decl, vals):
    """vals: list of ints, one per argument"""
    pay = arg_bytes(decl.args, lambda ty, name, i: vals[i])
    if decl.jumbo:
        return Ev(si, decl.mcv, b"", 1, pay)
    return Ev(si, decl.mcv, pay)


def fmt_value(ty, fmt, v):
    size = catalog.TYPE_SIZE.get(ty, 0)
    if ty == "str":
        return fmt_str(fmt, v)
    if ty[0] == "i":
        if v >= 2 ** (8 * size - 1):
            v -= 2 ** (8 * size)
    if fmt is None:
        return str(v)
    f = re.sub(r"(hh|h|ll|l|j|z|t)", "", fmt)
    conv = f[-1]
    if conv in "xXou" and v < 0:
        v += 2 ** 64 if "ll" in fmt else 2 ** (8 * max(size, 4))
    if conv in "xXo" and "#" in f and v == 0:
        f = f.replace("#", "")      # C prints no prefix for zero
    if conv == "u":
        f = f[:-1] + "d"
    if conv == "i":
        f = f[:-1] + "d"
    return f % v


def fmt_str(fmt, s):
    return (fmt or "%s") % s


def expected_description(decl, vals):
    """Independent formatter of the documented description with argument values substituted."""
    offs = {}
    for i, (ty, name) in enumerate(decl.args):
        offs[name] = (ty, vals[i])

    def rep(m):
        fmt, name = m.group(1), m.group(2)
        if name not in offs:
            return m.group(0)
        ty, v = offs[name]
        if ty == "str":
            return fmt_str("%" + fmt if fmt else None, str_value(v))
        size = catalog.TYPE_SIZE[ty]
        v &= 2 ** (8 * size) - 1
        return fmt_value(ty, "%" + fmt if fmt else None, v)
    # the template's own "%%" becomes "%" first (behind a placeholder), so that a "%%" inside a substituted value stays as it is
    s = re.sub(r"%([^{%]*)\{(\w+)\}", rep, decl.desc.replace("%%", "\0"))
    return s.replace("\0", "%")


def run(prop, tier):
    ctx = Ctx("C18", tier, "model_checking")
    tier = plan_of("C18", tier)
    ctx.cov["plan"] = tier
    scratch = Scratch("C18")
    try:
        build = Build()
        exe = build.harness("plain", "emu_server", ["emu_server.c"])
        tools = build.tools("plain", ["ovnievents", "ovnidump"])
        doc = catalog.load_events()
        r = subprocess.run([tools["ovnievents"]], stdout=subprocess.PIPE, stderr=subprocess.PIPE)
        if r.returncode != 0:
            ctx.violation("ovnievents exits %d" % r.returncode, {"engine": "ovnievents"}, {"kind": "ovnievents"})
        p = os.path.join(scratch.dir, "events.md")
        open(p, "wb").write(r.stdout)
        listed = catalog.load_events(p)
        if sum(len(d["events"]) for d in listed.values()) < 100 or len(listed) < 8:
            raise InfraError("cannot parse the output of ovnievents (format changed?): %d models" % len(listed))
        legacy = set(catalog.golden("legacy_codes.json")["accepted_with_warning"])
        # (D) the tool's list and the documentation name the same events
        for m in sorted(set(doc) | set(listed)):
            a = set(e.sig for e in doc.get(m, {"events": []})["events"])
            b = set(e.sig for e in listed.get(m, {"events": []})["events"])
            if a != b:
                ctx.violation("model %s: ovnievents and doc/user/emulation/events.md list different events: %s" % (m, sorted(a ^ b)[:6]),
                              {"engine": "ovnievents", "model": m, "difference": sorted(a ^ b)}, {"kind": "doc-vs-tool", "model": m})
        models = sorted(listed)
        nunlisted = 0
        for model in models:
            if ctx.out_of_time(0.85):
                ctx.cap("model %s not started" % model)
                continue
            d = listed[model]
            ch = d["char"]
            req = {"ovni": listed["ovni"]["version"], model: d["version"]}
            system = emusrv.System(SPEC, require=req, extra_meta=MARKS)
            td = system.write(scratch.sub("t-" + model))
            if model != "ovni":
                # only the first thread requires the model: it is enabled for the whole trace all the same
                pth = os.path.join(td, "loom.A/proc.100/thread.102", "stream.json")
                m2 = json.load(open(pth))
                del m2["ovni"]["require"][model]
                json.dump(m2, open(pth, "w"))
            pool = ServerPool(exe, td, ["-l"])
            pool.meta = system.meta if "system" in dir() else None
            try:
                s = pool.local.streams
                A, B = s["loom.A/proc.100/thread.101"], s["loom.A/proc.100/thread.102"]
                prefix = [Ev(A, "OHx", i32(0, 101) + i64(0))]
                if model in ("nosv", "nanos6"):
                    prefix += [Ev(A, ch + "Yc", b"", 1, u32(1) + b"tt\0"), Ev(A, ch + "Tc", u32(1, 1))]
                    if model == "nosv":
                        prefix.append(Ev(A, "VTC", u32(2, 1)))
                by_mcv = {e.mcv: e for e in d["events"]}
                # ---- (A) every printable code: unlisted => refused
                probes, meta = [], []
                for c in PRINTABLE:
                    for v in PRINTABLE:
                        mcv = ch + c + v
                        if mcv in by_mcv:
                            continue
                        pays = [b"", bytes(16)]
                        if ch == "O" and c == "M":
                            # a well-formed mark payload (non-zero value) for the stack type 0 and the single type 1
                            pays += [i64(1) + i32(0), i64(1) + i32(1)]
                        for pay in pays:
                            probes.append(Ev(A, mcv, pay))
                            meta.append(mcv)
                tasks = [(prefix, probes[i:i + 600]) for i in range(0, len(probes), 600)]
                k = 0
                accepted_unlisted = set()
                for (hres, pres) in pool.expand_many(tasks):
                    if not hres.get("ok"):
                        # the prefix is a legal history (execute, type and task creation): refusing it is the emulator's doing
                        ctx.violation("model %s: the emulator refuses the legal prefix %s: %s" % (model, [e.short() for e in prefix], hres.get("msg")),
                                      {"engine": "E3", "model": model, "prefix": [e.line() for e in prefix], "flags": pool.flags}, {"kind": "prefix-refused", "model": model})
                        raise StopIteration
                    for r in pres:
                        mcv = meta[k]
                        k += 1
                        ctx.add(evaluations=1, transitions=1)
                        if r.crashed:
                            ctx.violation("model %s: unlisted code %r crashes the emulator: %s" % (model, mcv, r.msg),
                                          {"engine": "E3", "model": model, "mcv": mcv, "prefix": [e.line() for e in prefix]}, {"kind": "crash", "mcv": mcv})
                        elif r.ok:
                            if mcv[1] in IGNORED_VALUE.get(ch, "") or mcv in legacy:
                                continue
                            accepted_unlisted.add(mcv)
                nunlisted += k
                for mcv in sorted(accepted_unlisted):
                    ctx.violation("model %s: code %r is not listed by ovnievents but the handler accepts it" % (model, mcv),
                                  {"engine": "E3", "model": model, "mcv": mcv, "prefix": [e.line() for e in prefix], "flags": pool.flags},
                                  {"kind": "unlisted-accepted", "mcv": mcv})
                # ---- (B) every listed event is accepted in some context (sequences of <= 3 listed events)
                cand = []
                for e in d["events"]:
                    nargs = len(e.args)
                    domain = [1, 2, 0]
                    for vals in itertools.product(domain, repeat=min(nargs, 2)):
                        vals = list(vals) + [0] * (nargs - len(vals))
                        for si in ((A, B) if model == "ovni" else (A,)):
                            if e.mcv in ("OHx",):
                                vals2 = [vals[0] - 1, 101 if si == A else 102, 0]
                                cand.append((e.mcv, mk_event(si, e, vals2)))
                            elif e.mcv in ("OAr",):
                                cand.append((e.mcv, mk_event(si, e, [vals[0] - 1, 101])))
                            elif e.mcv in ("OM[", "OM]"):
                                cand.append((e.mcv, mk_event(si, e, [vals[0] or 3, 0])))
                            elif e.mcv == "OM=":
                                cand.append((e.mcv, mk_event(si, e, [vals[0] or 3, 1])))
                            elif e.mcv[1:] == "Yc" and e.args:
                                cand.append((e.mcv, mk_event(si, e, [vals[0] + 5, 7])))
                            elif e.mcv[1:] in ("Tc", "TC") and len(e.args) == 2:
                                cand.append((e.mcv, mk_event(si, e, [vals[0] + 5, 1])))
                            else:
                                cand.append((e.mcv, mk_event(si, e, vals)))
                # ---- (A2) unlisted codes again right after each listed event of their own category (inside an open flush, region,
                # mark, task ...): what the handler does with an unknown value may depend on what is open
                tasks2, meta2 = [], []
                seen_ctx = set()
                for (m_, ev) in cand:
                    if m_ in seen_ctx or m_[:2] == "OH":
                        continue
                    seen_ctx.add(m_)
                    pr2 = []
                    for v in PRINTABLE:
                        mcv = m_[:2] + v
                        if mcv in by_mcv:
                            continue
                        pays = [b"", bytes(16)]
                        if m_[:2] == "OM":
                            pays += [i64(1) + i32(0), i64(1) + i32(1)]
                        pr2 += [Ev(A if ev[0] == A else ev[0], mcv, pay) for pay in pays]
                    if pr2:
                        tasks2.append((prefix + [ev], pr2))
                        meta2.append(m_)
                acc2 = {}
                n2 = 0
                for m_, (hres, pres) in zip(meta2, pool.expand_many(tasks2)):
                    if not hres.get("ok"):
                        continue            # this listed event is not legal right after the prefix: no context
                    for r, pe in zip(pres, dict(zip(meta2, [t[1] for t in tasks2]))[m_]):
                        n2 += 1
                        if r.crashed:
                            ctx.violation("model %s: unlisted code %r after %s crashes the emulator: %s" % (model, pe[2], m_, r.msg),
                                          {"engine": "E3", "model": model, "mcv": pe[2], "after": m_}, {"kind": "crash", "mcv": pe[2]})
                        elif r.ok and not (pe[2][1] in IGNORED_VALUE.get(ch, "") or pe[2] in legacy):
                            acc2.setdefault(pe[2], m_)
                ctx.add(evaluations=n2, transitions=n2)
                for mcv, after in sorted(acc2.items()):
                    ctx.violation("model %s: code %r is not listed by ovnievents but the handler accepts it right after %s" % (model, mcv, after),
                                  {"engine": "E3", "model": model, "mcv": mcv, "after": after, "prefix": [e.line() for e in prefix], "flags": pool.flags},
                                  {"kind": "unlisted-accepted", "mcv": mcv})
                # ---- (A3) unlisted codes carrying the well-formed arguments of a listed event of their category (a handler that
                # checks the payload before the value - or instead of it - lets them through)
                pr3, seen3 = [], set()
                for (m_, ev) in cand:
                    if not ev[3] and ev[4] is None:
                        continue
                    for v in PRINTABLE:
                        mcv = m_[:2] + v
                        key3 = (mcv, ev[0], ev[3], ev[4])
                        if mcv in by_mcv or key3 in seen3:
                            continue
                        seen3.add(key3)
                        pr3.append((Ev(ev[0], mcv, ev[3], 1, ev[4]), m_))
                acc3 = {}
                tasks3 = [(prefix, [q[0] for q in pr3[i:i + 600]]) for i in range(0, len(pr3), 600)]
                k3 = 0
                for (hres, pres) in pool.expand_many(tasks3):
                    if not hres.get("ok"):
                        break
                    for r in pres:
                        pe, like = pr3[k3]
                        k3 += 1
                        if r.crashed:
                            ctx.violation("model %s: unlisted code %r with the arguments of %s crashes the emulator: %s" % (model, pe[2], like, r.msg),
                                          {"engine": "E3", "model": model, "mcv": pe[2], "like": like}, {"kind": "crash", "mcv": pe[2]})
                        elif r.ok and not (pe[2][1] in IGNORED_VALUE.get(ch, "") or pe[2] in legacy):
                            acc3.setdefault(pe[2], (like, pe))
                ctx.add(evaluations=k3, transitions=k3)
                for mcv, (like, pe) in sorted(acc3.items()):
                    ctx.violation("model %s: code %r is not listed by ovnievents but the handler accepts it with the arguments of %s" % (model, mcv, like),
                                  {"engine": "E3", "model": model, "mcv": mcv, "like": like, "prefix": [e.line() for e in prefix], "probe": pe.line(), "flags": pool.flags},
                                  {"kind": "unlisted-accepted", "mcv": mcv})
                # thread states in which the model's events are legal (DESIGN.md A.5): nOS-V and Nanos6 events only need an
                # active thread, so the search is repeated from a cooling and from a warming thread
                ctxs = [("running", [])]
                if model in ("nosv", "nanos6"):
                    ctxs += [("cooling", [Ev(A, "OHc")]), ("warming", [Ev(A, "OHp"), Ev(A, "OHw")])]
                depth = 3
                nctx = 0
                nstates = 0
                for (cname, cpre) in ctxs:
                    uncovered = set(by_mcv)
                    if cname != "running":
                        # thread life-cycle events of the model itself would leave the state under test
                        uncovered -= set(m_ for m_ in by_mcv if m_[:2] == "OH")
                    frontier = [[]]
                    seen_hash = set()
                    for lvl in range(depth):
                        if not uncovered or not frontier:
                            break
                        pr = [ev for (m_, ev) in cand]
                        res = pool.expand_many([(prefix + cpre + h, pr) for h in frontier])
                        nxt = []
                        for h, (hres, pres) in zip(frontier, res):
                            if not hres.get("ok"):
                                if not h:
                                    ctx.violation("model %s: the emulator refuses the legal prefix %s: %s" % (model, [e.short() for e in prefix + cpre], hres.get("msg")),
                                                  {"engine": "E3", "model": model, "prefix": [e.line() for e in prefix + cpre], "flags": pool.flags},
                                                  {"kind": "prefix-refused", "model": model})
                                    raise StopIteration
                                continue
                            for (m_, ev), r in zip(cand, pres):
                                nctx += 1
                                if r.crashed:
                                    ctx.violation("model %s: listed event %s crashes the emulator after %s: %s" % (model, ev.short(), [e.short() for e in cpre + h], r.msg),
                                                  {"engine": "E3", "model": model, "history": [e.line() for e in prefix + cpre + h], "probe": ev.line()}, {"kind": "crash", "mcv": m_})
                                    continue
                                if r.ok:
                                    uncovered.discard(m_)
                                    if r.hash not in seen_hash and len(nxt) < 400:
                                        seen_hash.add(r.hash)
                                        nxt.append(h + [ev])
                        frontier = nxt
                    nstates += len(seen_hash)
                    for m_ in sorted(uncovered):
                        ctx.violation("model %s: listed event %s (%s) is not accepted in any context of <= %d listed events on a %s thread" % (
                            model, m_, by_mcv[m_].desc, depth, cname),
                            {"engine": "E3", "model": model, "mcv": m_, "thread_state": cname, "prefix": [e.line() for e in prefix + cpre]},
                            {"kind": "listed-never-accepted", "mcv": m_, "thread_state": cname})
                ctx.add(evaluations=nctx, transitions=nctx, states=nstates)
                # ---- (B2) legality does not wear off: an event (or enter/leave pair) that is accepted twice in a row
                # is still accepted the 150th (thorough: 400th) time
                reps = 150 if tier == "quick" else 400
                tasks, meta2 = [], []
                first = pool.expand_many([(prefix, [ev for (m_, ev) in cand])])[0]
                if first[0].get("ok"):
                    okev = [(m_, ev) for (m_, ev), r in zip(cand, first[1]) if r.ok]
                    second = pool.expand_many([(prefix + [ev], [ev]) for (m_, ev) in okev])
                    done_m = set()
                    for (m_, ev), (hres, pres) in zip(okev, second):
                        if m_ in done_m or not hres.get("ok"):
                            continue
                        if pres[0].ok:
                            done_m.add(m_)
                            tasks.append((prefix + [ev] * reps, [ev]))
                            meta2.append((m_, "x%d" % reps))
                    # enter/leave pairs (golden table): (enter, leave) repeated
                    gold = catalog.golden("enter_values.json")["enter"]
                    for m_, g in sorted(gold.items()):
                        if m_[0] == ch and m_ in by_mcv and not by_mcv[m_].args and g["leave"] in by_mcv and not by_mcv[g["leave"]].args:
                            tasks.append((prefix + [Ev(A, m_), Ev(A, g["leave"])] * (reps // 2), [Ev(A, m_)]))
                            meta2.append((m_, "pair x%d" % (reps // 2)))
                    for (m_, how), (hres, pres) in zip(meta2, pool.expand_many(tasks)):
                        ctx.add(evaluations=1, transitions=reps)
                        bad = None
                        if not hres.get("ok"):
                            bad = "repetition %d refused: %s" % (hres.get("fail_index", -1) - len(prefix) + 1, hres.get("msg"))
                        elif not pres[0].ok:
                            bad = "refused after %s: %s" % (how, pres[0].msg)
                        if bad:
                            ctx.violation("model %s: listed event %s is accepted twice in a row but %s" % (model, m_, bad),
                                          {"engine": "E3", "model": model, "mcv": m_, "repetitions": how, "prefix": [e.line() for e in prefix]},
                                          {"kind": "listed-wears-off", "mcv": m_})
                    ctx.part("repeat-" + model, events=len(meta2), repetitions=reps)
                ctx.part("model-" + model, listed=len(by_mcv), unlisted_codes_probed=k, context_probes=nctx, legacy=sorted(legacy & set(ch + c + v for c in PRINTABLE for v in PRINTABLE)))
            except StopIteration:
                pass
            finally:
                pool.close()
        # ---- (C) ovnidump decodes every listed event into its description with the values substituted
        dump = tools["ovnidump"]
        base = scratch.sub("dump")
        jobs = []
        for model in models:
            for e in listed[model]["events"]:
                for val in (0, 1, -1, 2 ** 31 - 1, 2 ** 63 - 1):
                    jobs.append((model, e, [val] * len(e.args)))
                    if not e.args:
                        break
                if any(ty == "str" for ty, _ in e.args):
                    # labels of every interesting length (the emulator accepts up to 511 characters)
                    for n in (1, 2, 100, 254, 255, 256, 257, 400, 511):
                        jobs.append((model, e, [(n << 8) if ty == "str" else 5 for ty, _ in e.args]))
                    for code in sorted(SPECIAL_STR):
                        jobs.append((model, e, [code if ty == "str" else 5 for ty, _ in e.args]))

        def one(j):
            model, e, vals = j
            td = os.path.join(base, "w%d" % os.getpid())
            system = emusrv.System([{"name": "A", "cpus": [(0, 0)], "procs": [{"pid": 1, "threads": [2]}]}])
            emusrv.materialise(system, td, [mk_event(0, e, vals)], {0: "loom.A/proc.1/thread.2"})
            rc, out, err = emusrv.run_tool(dump, [td])
            return rc, out, err[-200:]
        for (model, e, vals), (rc, out, err) in zip(jobs, pmap(one, jobs)):
            ctx.add(evaluations=1, transitions=1, traces_validated_against_impl=1)
            want = expected_description(e, vals)
            lines = [l for l in out.split("\n") if l.strip()]
            got = None
            if lines:
                k = lines[0].split(None, 3)
                got = k[3] if len(k) > 3 else ""
            if rc != 0 or got is None or got.strip() != want.strip():
                ctx.violation("ovnidump prints %r for %s with argument values %s, the listed description gives %r (exit %r)" % (got, e.sig, vals[:3], want, rc),
                              {"engine": "ovnidump", "model": model, "signature": e.sig, "values": vals, "expected": want, "got": got},
                              {"kind": "dump-decode", "mcv": e.mcv})
        ctx.part("ovnidump-decode", cases=len(jobs))
        # ... and all of them in ONE dump, ordered so that consecutive events come from different models but share category and
        # value wherever several models have such a code (what one event leaves behind must not colour the next)
        allev = sorted(((e.mcv[1:], model, e) for model in models for e in listed[model]["events"]), key=lambda x: (x[0], x[1]))
        for val in (1, 7):
            hist = [mk_event(0, e, [val] * len(e.args)) for (_, _, e) in allev]
            td = os.path.join(base, "all%d" % val)
            system = emusrv.System([{"name": "A", "cpus": [(0, 0)], "procs": [{"pid": 1, "threads": [2]}]}])
            emusrv.materialise(system, td, hist, {0: "loom.A/proc.1/thread.2"})
            rc, out, err = emusrv.run_tool(dump, [td])
            lines = [l for l in out.split("\n") if l.strip()]
            ctx.add(evaluations=len(allev), transitions=len(allev), traces_validated_against_impl=1)
            if rc != 0 or len(lines) != len(allev):
                ctx.violation("ovnidump on one stream holding all %d listed events: exit %r, %d lines: %s" % (len(allev), rc, len(lines), err[-200:]),
                              {"engine": "ovnidump", "check": "all-in-one", "value": val}, {"kind": "dump-all"})
                continue
            nbad = 0
            for (cv, model, e), l in zip(allev, lines):
                k = l.split(None, 3)
                got = k[3] if len(k) > 3 else ""
                want = expected_description(e, [val] * len(e.args))
                if got.strip() != want.strip():
                    nbad += 1
                    if nbad <= 2:
                        ctx.violation("ovnidump, all listed events in one stream: %s of model %s is printed as %r, the listed description gives %r" % (e.mcv, model, got, want),
                                      {"engine": "ovnidump", "check": "all-in-one", "value": val, "mcv": e.mcv, "model": model}, {"kind": "dump-all", "mcv": e.mcv})
        ctx.part("ovnidump-all-in-one", events=len(allev))
        ctx.add(states=len(jobs))
        ctx.sample({"model": "nosv", "unlisted_probe": "VS~ without payload and with 16 bytes", "expected": "refused"})
        ctx.sample({"ovnidump": "OHx(i32 cpu, i32 tid, u64 tag) with values -1 -> 'begins the execution on CPU -1 created from -1 with tag 0xffffffffffffffff'"})
        ctx.cov["rule"] = ("for each of the 8 models: all 94x94 printable (category,value) codes not listed by ovnievents, without payload and with a 16-byte payload, "
                           "probed on a running thread with the model enabled (must be refused, except OB?/OU? and the frozen legacy list); every listed event searched "
                           "(OM? also with well-formed mark payloads for a stack and a single type); every listed event searched for an accepting context (on a running thread; for nOS-V and Nanos6 also on a cooling and on a warming thread) by BFS over sequences of <= 3 listed events with arguments from {existing id, new id, 0}; every listed event x "
                           "5 argument values decoded by the real ovnidump and compared with an independent formatter; ovnievents vs documentation")
        ctx.cov["distinct_nontrivial"] = nunlisted
        ctx.cov["unlisted_codes_probed"] = nunlisted
        return ctx.finish()
    finally:
        scratch.cleanup()
