"""C06: view consistency.  For every per-thread quantity (grouped by the events
that drive it) the product of the TLC thread/CPU graph and the quantity's value
state is explored on the real emulator; after every accepted event the thread
and CPU rows must equal the reference evaluation (tracking mode, unique running
thread, idle default)."""
import os, json
from lib.common import Ctx, Build, Scratch, InfraError
from lib import emusrv, catalog, pv
from lib.emusrv import Ev, Fin, i32, i64, u32
from lib.explore import ServerPool, Explorer, Ref, short_hist, binding_cases, bind_shallow
from checks.threadcpu import Layout, TcRef, build_graph, ACTIVE
from checks.c08 import PrefixPool, PrefixRefused, report_prefix

ANY, RUN, ACT = "ANY", "RUN", "ACT"
RESTING = 101

# thread-row tracking mode per Paraver type (DESIGN.md A.3); cross-checked against the .pcf label suffix
MODE = {7: ANY, 45: ANY, 39: ANY,
        13: ACT, 37: ACT, 30: ACT, 20: ACT, 50: ACT, 100: ACT, 101: ACT,
        10: RUN, 11: RUN, 12: RUN, 14: RUN, 15: RUN, 16: RUN, 35: RUN, 36: RUN, 38: RUN, 40: RUN, 25: RUN}
CPU_DEFAULT = {16: RESTING, 40: RESTING}
# state a model requires of the emitting thread (soft: C08 judges it)
NEED = {"V": "active", "6": "active", "M": "running", "T": "running", "D": "running", "P": "running", "K": "any", "O": "any"}


def mode_ok(mode, st):
    return mode == ANY or (mode == RUN and st == "running") or (mode == ACT and st in ACTIVE)


class Group:
    """A set of events and the (type, op, symbol) effects they have on one thread."""

    def __init__(self, name, require, types, init=None, helper_prefix=None, rank=None, extra_meta=None):
        self.name, self.require, self.types = name, require, types
        self.events = {}      # key -> (mcv, payload_fn(thread idx) , ops)
        self.init = init or {}
        self.helper_prefix = helper_prefix
        self.rank = rank
        self.extra_meta = extra_meta

    def add(self, key, mcv, ops, payload=lambda k: b""):
        self.events[key] = (mcv, payload, ops)


def make_groups(cat, gold, tier):
    G = []
    ver = lambda m: cat[m]["version"]
    ent = gold["enter"]

    def stack_group(name, model, ty, picks):
        g = Group(name, {model: ver(model)}, [ty])
        for mcv in picks:
            e = ent[mcv]
            assert e["type"] == ty
            g.add(mcv, mcv, [(ty, "push", (mcv, e["value"]))])
            g.add(e["leave"], e["leave"], [(ty, "pop", (mcv, e["value"]))])
        return g
    G.append(stack_group("nosv-subsystem", "nosv", 13, ["VAr", "VMa"]))
    G.append(stack_group("mpi-function", "mpi", 25, ["MW[", "MSs"]))
    G.append(stack_group("kernel-cs", "kernel", 45, ["KCO"]))
    # several models at once in one thread: a region of nOS-V, an MPI function and a kernel context switch interleaved, with
    # all eight models enabled (each quantity must keep following its own rule whatever the others do)
    allm = {m: ver(m) for m in ("nosv", "nanos6", "nodes", "mpi", "tampi", "openmp", "kernel")}
    mixes = [("mixed-nosv-mpi", [13, 25], ("VAr", "MW["))]
    if tier != "quick":
        mixes.append(("mixed-nosv-mpi-kernel", [13, 25, 45], ("VAr", "MW[", "KCO")))
    for nm, tys, picks in mixes:
        g = Group(nm, allm, tys)
        for mcv in picks:
            e = ent[mcv]
            g.add(mcv, mcv, [(e["type"], "push", (mcv, e["value"]))])
            g.add(e["leave"], e["leave"], [(e["type"], "pop", (mcv, e["value"]))])
        G.append(g)
    # idle: set channels, initial value Progressing (100), CPU default Resting
    for nm, model, ty, c in (("nosv-idle", "nosv", 16, "V"), ("nanos6-idle", "nanos6", 40, "6")):
        g = Group(nm, {model: ver(model)}, [ty], init={ty: (("init", 100),)})
        for v, val in (("p", 100), ("r", 101), ("a", 102)):
            g.add(c + "P" + v, c + "P" + v, [(ty, "set", (c + "P" + v, val))])
        if tier != "quick" or nm == "nosv-idle":
            G.append(g)
    # nOS-V task channels: task k runs on thread k; a helper thread creates type and tasks first
    g = Group("nosv-task", {"nosv": ver("nosv")}, [10, 11, 12, 14, 15, 13], rank=3,
              helper_prefix=[("VYc", u32(7) + b"ttype\0", True), ("VYc", u32(8) + b"utype\0", True), ("VTc", u32(1, 7), False), ("VTc", u32(2, 8), False)])
    g.add("VTx", "VTx", lambda k: [(10, "push", "taskid%d" % k), (11, "push", "gid%d" % k), (12, "push", "appid"), (14, "push", "rank"),
                                   (15, "push", "bodyid"), (13, "push", ("body", 11))], payload=lambda k: u32(k + 1, 0))
    g.add("VTe", "VTe", lambda k: [(10, "pop", "taskid%d" % k), (11, "pop", "gid%d" % k), (12, "pop", "appid"), (14, "pop", "rank"),
                                   (15, "pop", "bodyid"), (13, "pop", ("body", 11))], payload=lambda k: u32(k + 1, 0))
    G.append(g)
    if tier != "quick":
        G.append(stack_group("nanos6-thread", "nanos6", 39, ["6Hw", "6He"]))
        G.append(stack_group("nanos6-subsystem", "nanos6", 37, ["6W[", "6Bb"]))
        G.append(stack_group("nodes-subsystem", "nodes", 30, ["DR[", "DT["]))
        G.append(stack_group("tampi-subsystem", "tampi", 20, ["TCi", "TLp"]))
        G.append(stack_group("openmp-subsystem", "openmp", 50, ["PBb", "PT["]))
        g = Group("ovni-flush", {}, [7])
        g.add("OF[", "OF[", [(7, "set", ("OF[", 1))])
        g.add("OF]", "OF]", [(7, "unset", None)])
        G.append(g)
        g = Group("nanos6-task", {"nanos6": ver("nanos6")}, [35, 36, 38, 37], rank=2,
                  helper_prefix=[("6Yc", u32(7) + b"ttype\0", True), ("6Yc", u32(8) + b"utype\0", True), ("6Tc", u32(1, 7), False), ("6Tc", u32(2, 8), False)])
        g.add("6Tx", "6Tx", lambda k: [(35, "push", "taskid%d" % k), (36, "push", "gid%d" % k), (38, "push", "rank"), (37, "push", ("body", None))],
              payload=lambda k: u32(k + 1))
        g.add("6Te", "6Te", lambda k: [(35, "pop", "taskid%d" % k), (36, "pop", "gid%d" % k), (38, "pop", "rank"), (37, "pop", ("body", None))],
              payload=lambda k: u32(k + 1))
        G.append(g)
        # user marks: one stack type (0) and one single type (1)
        mk = {"ovni": {"mark": {"0": {"title": "m0", "chan_type": "stack", "labels": {"1": "one", "2": "two"}},
                                "1": {"title": "m1", "chan_type": "single"}}}}
        g = Group("ovni-mark", {}, [100, 101], extra_meta={"*": mk})
        for v in (1, 2):
            g.add("OM[%d" % v, "OM[", [(100, "push", ("m", v))], payload=lambda k, v=v: i64(v) + i32(0))
            g.add("OM]%d" % v, "OM]", [(100, "pop", ("m", v))], payload=lambda k, v=v: i64(v) + i32(0))
            g.add("OM=%d" % v, "OM=", [(101, "set", ("s", v))], payload=lambda k, v=v: i64(v) + i32(1))
        G.append(g)
    return G


class ViewRef(Ref):
    def __init__(self, layout, tc, group, depth, dts_val, kinds):
        self.layout, self.tc, self.group, self.depth = layout, tc, group, depth
        self.spec = layout.spec
        self.dts_val = dts_val
        self.learn_map = {}       # (type, symbol) -> numeric value learned from the thread row
        self._alpha = None
        self.nthreads = len(tc.layout.tnames)

    def init(self):
        v0 = tuple(tuple((ty, self.group.init.get(ty, ())) for ty in self.group.types) for _ in range(self.nthreads))
        return (self.tc.init(), v0)

    def key(self, s):
        return s

    def alphabet(self, s):
        if self._alpha is None:
            out = [(("T",) + l, e) for (l, e) in self.tc.alphabet(None) if not isinstance(e, Fin)]
            for dt in self.dts_val:
                for k, t in enumerate(self.tc.layout.tnames):
                    si = self.tc.sidx[t]
                    for key, (mcv, pf, ops) in self.group.events.items():
                        out.append((("V", k, key, dt), Ev(si, mcv, pf(k), dt)))
            self._alpha = out
        return self._alpha

    def step(self, s, label):
        tcs, vals = s
        if label[0] == "T":
            # thread machine event; a thread that is out of CPU cannot emit ovni events (soft)
            tl = label[1:]
            e, s2, why = self.tc.step(tcs, tl)
            emitter = tl[1]
            k = self.tc.layout.tnames.index(emitter) if emitter in self.tc.layout.tnames else None
            if k is not None and 45 in self.group.types and dict(vals[k])[45]:
                return ("soft", None, "emitter is out of CPU")
            if e == "ok":
                return ("ok", (s2, vals), why)
            if e == "fail":
                return ("fail", None, why)
            return ("soft", (s2, vals) if s2 is not None else None, why)
        _, k, key, dt = label
        mcv, pf, ops = self.group.events[key]
        st = tcs[0][k]
        need = NEED.get(mcv[0], "any")
        pre = (need == "any") or (need == "active" and st in ACTIVE) or (need == "running" and st == "running")
        if mcv[0] in "VO" and 45 in self.group.types and dict(vals[k])[45]:
            pre = False
        d = dict(vals[k])
        okk = pre
        if callable(ops):
            ops = ops(k)
        for (ty, op, sym) in ops:
            cur = d[ty]
            if op == "push":
                if cur and cur[-1] == sym and ty != 13:
                    okk = False       # immediate re-entry: outcome not fixed; do not predict (nOS-V allows it)
                d[ty] = cur + (sym,)
            elif op == "pop":
                if not cur or cur[-1] != sym:
                    okk = False
                else:
                    d[ty] = cur[:-1]
            elif op == "set":
                if cur and cur[-1] == sym:
                    okk = False       # duplicate set: outcome not fixed
                d[ty] = (sym,)
            elif op == "unset":
                if not cur:
                    okk = False
                d[ty] = ()
        if not okk:
            return ("soft", None, "precondition of the value event not met (judged by C08)")
        if any(len(v) > self.depth for v in d.values()):
            return ("soft", None, "beyond explored depth")
        v2 = tuple(tuple(sorted(d.items())) if i == k else vals[i] for i in range(self.nthreads))
        return ("soft", (tcs, v2), "value event")

    # -- values
    def _num(self, ty, sym):
        if isinstance(sym, tuple) and sym[1] is not None:
            return sym[1]
        return self.learn_map.get((ty, sym if not isinstance(sym, tuple) else sym[0]))

    def learn(self, s, disp):
        """Symbols whose number the documentation does not fix (task id, type gid, ...) are
        learned from the thread row the first time they are displayed."""
        tcs, vals = s
        L = self.tc.layout
        for k, t in enumerate(L.tnames):
            row = L.threads[t]["row"]
            for ty, stk in vals[k]:
                if not stk:
                    continue
                sym = stk[-1]
                if isinstance(sym, tuple) and sym[1] is not None:
                    continue
                name = sym if not isinstance(sym, tuple) else sym[0]
                if (ty, name) in self.learn_map:
                    continue
                if mode_ok(MODE[ty], tcs[0][k]):
                    v = disp.get(("thread", row, ty), 0)
                    if v != 0:
                        self.learn_map[(ty, name)] = v

    def display(self, s):
        tcs, vals = s
        st, cpu = tcs
        L = self.tc.layout
        d = self.tc.display(tcs)
        for k, t in enumerate(L.tnames):
            row = L.threads[t]["row"]
            for ty, stk in vals[k]:
                if stk and mode_ok(MODE[ty], st[k]):
                    n = self._num(ty, stk[-1])
                    if n is not None:
                        d[("thread", row, ty)] = n
                else:
                    d[("thread", row, ty)] = 0
        for c, cd in L.cpus.items():
            run = [k for k, t in enumerate(L.tnames) if cpu[k] == c and st[k] == "running"]
            for ty in self.group.types:
                if len(run) == 1:
                    stk = dict(vals[run[0]])[ty]
                    if stk:
                        n = self._num(ty, stk[-1])
                        if n is not None:
                            d[("cpu", cd["row"], ty)] = n
                    else:
                        d[("cpu", cd["row"], ty)] = 0
                else:
                    # "empty, or the quantity's idle default"
                    d[("cpu", cd["row"], ty)] = (0, CPU_DEFAULT[ty]) if ty in CPU_DEFAULT else 0
        return d

    def attribute(self, kind, label):
        return "C06"


class LearnExplorer(Explorer):
    def _check_display(self, s, disp, hist, ev, label):
        self.ref.learn(s, disp)
        return Explorer._check_display(self, s, disp, hist, ev, label)


def run(prop, tier):
    ctx = Ctx("C06", tier, "model_checking")
    scratch = Scratch("C06")
    try:
        build = Build()
        exe = build.harness("plain", "emu_server", ["emu_server.c"])
        cat = catalog.load_events()
        gold = catalog.golden("enter_values.json")
        groups = make_groups(cat, gold, tier)
        if tier == "quick":
            # the Nanos6 task quantities and the user marks also belong to the quick tier
            have = set(g.name for g in groups)
            groups += [g for g in make_groups(cat, gold, "thorough") if g.name in ("nanos6-task", "ovni-mark") and g.name not in have]
        only = os.environ.get("VERIF_C06_GROUPS")
        if only:
            groups = [g for g in make_groups(cat, gold, "thorough") if g.name in only.split(",")]
            ctx.cap("debug filter VERIF_C06_GROUPS=%s" % only)
        # model part: two threads, CPUs A0 (+A1 in the thorough tier) and the virtual CPU
        mcpus = [(0, 1)] if tier == "quick" else [(0, 1), (1, 0)]
        mspec = [{"name": "A", "cpus": mcpus, "procs": [{"pid": 100, "threads": [101, 102]}]}]
        mlayout = Layout(mspec)
        mstates, E = build_graph(ctx, scratch, mlayout, "view")
        # ---- tracking-mode sweep: every documented region of every model held open while its thread cools down, pauses, warms up
        # and runs again: the thread row shows it exactly in the states of its tracking mode, the CPU row exactly while the thread runs
        def mode_sweep():
            X0 = Ev(0, "OHx", i32(0, 101) + i64(0))
            # (two CPUs whose logical indices and physical ids run in opposite directions: index 0, where the thread runs, is the
            # second CPU row)
            sw_spec = [{"name": "A", "cpus": [(0, 5), (1, 2)], "procs": [{"pid": 100, "threads": [101]}]}]
            steps = [("running", None), ("cooling", "OHc"), ("paused", "OHp"), ("warming", "OHw"), ("running", "OHr")]
            nsw = 0
            for model in ("nosv", "nanos6", "nodes", "mpi", "tampi", "openmp", "kernel"):
                ents = sorted((k, g) for k, g in gold["enter"].items() if k[0] == cat[model]["char"] and g["type"] in MODE)
                if not ents:
                    continue
                system = emusrv.System(sw_spec, require={"ovni": cat["ovni"]["version"], model: cat[model]["version"]})
                pool = ServerPool(exe, system.write(scratch.sub("sweep-" + model)), ["-l"])
                try:
                    for mcv, g in ents:
                        hist = [X0, Ev(0, mcv)]
                        for st, ev in steps:
                            if ev:
                                hist = hist + [Ev(0, ev)]
                            hres, _ = pool.local.expand(hist, [], echo=True)
                            nsw += 1
                            if not hres.get("ok"):
                                break       # (acceptance in this state is C08's subject)
                            disp = {}
                            for (n, row, tm, ty, val) in pool.local.init_lines + hres["lines"]:
                                disp[(n, row, ty)] = val
                            want_t = g["value"] if mode_ok(MODE[g["type"]], st) else 0
                            want_c = g["value"] if st == "running" else 0
                            got_t, got_c = disp.get(("thread", 1, g["type"]), 0), disp.get(("cpu", 2, g["type"]), 0)
                            other = disp.get(("cpu", 1, g["type"]), 0)
                            if other not in (0, CPU_DEFAULT.get(g["type"], 0)):
                                got_c = "%s (and the row of the CPU nobody runs on: %d)" % (got_c, other)
                            if got_t != want_t or got_c != want_c:
                                ctx.violation("model %s: region %s (%s) open, thread %s: thread row type %d shows %d (expected %d), CPU row shows %s (expected %d)" % (
                                    model, mcv, g["label"], st, g["type"], got_t, want_t, got_c, want_c),
                                    {"engine": "E3 emu_server", "check": "mode-sweep", "model": model, "history": [e.line() for e in hist]},
                                    {"kind": "mode-sweep", "mcv": mcv, "state": st})
                                break
                finally:
                    pool.close()
            ctx.add(evaluations=nsw, transitions=nsw)
            ctx.part("tracking-mode-sweep", probes=nsw)
        mode_sweep()
        mode_notes = []
        for g in groups:
            if ctx.out_of_time(0.85):
                ctx.cap("group %s not started (deadline)" % g.name)
                continue
            # full system: + helper thread 103 on its own CPU (largest physical id, so model rows keep their order)
            hidx = len(mcpus)
            spec = [{"name": "A", "cpus": mcpus + [(hidx, 9)],
                     "procs": [{"pid": 100, "threads": [101, 102, 103], "rank": g.rank, "nranks": (4 if g.rank is not None else None)}]}]
            full = Layout(spec)
            layout = Layout(mspec)
            for t in layout.tnames:
                layout.threads[t]["row"] = full.threads[t]["row"]
            for c in layout.cpus:
                layout.cpus[c]["row"] = full.cpus[c]["row"]
            layout.spec = spec
            req = {"ovni": cat["ovni"]["version"]}
            req.update(g.require)
            system = emusrv.System(spec, require=req, extra_meta=g.extra_meta)
            td = system.write(scratch.sub("trace-" + g.name))
            pool = ServerPool(exe, td, ["-l"])
            pool.meta = system.meta if "system" in dir() else None
            try:
                sidx = {t: pool.local.streams[layout.threads[t]["rel"]] for t in layout.tnames}
                hs = pool.local.streams["loom.A/proc.100/thread.103"]
                prefix = [Ev(hs, "OHx", i32(hidx, 103) + i64(0))]
                for (mcv, payload, jumbo) in (g.helper_prefix or []):
                    prefix.append(Ev(hs, mcv, b"", 1, payload) if jumbo else Ev(hs, mcv, payload))
                try:
                    pp = PrefixPool(pool, prefix)
                except PrefixRefused as e:
                    report_prefix(ctx, e, "group " + g.name, pool.flags, spec)
                    continue
                tc = TcRef(layout, (mstates, E), sidx, finish=False, dts=(1,))
                # drop the non-existent-CPU probes (C04/C05 cover them) to keep the alphabet small
                tc._alpha = [(l, e) for (l, e) in tc.alphabet(None) if "?7" not in l]
                depth = 1 if (tier == "quick" or g.name not in ("nosv-subsystem", "mpi-function")) else 2
                ref = ViewRef(layout, tc, g, depth, dts_val=(1, 0), kinds=None)
                ex = LearnExplorer(ctx, pp, ref, name="view-" + g.name, report_props={"C06"}, check_time=False)
                st = ex.run()
                ctx.part("view-" + g.name, types=g.types, learned={"%d:%s" % k: v for k, v in ref.learn_map.items()},
                         value_events=sorted(g.events), depth=depth)
                # tracking mode shown to the user in the .pcf label must agree with the table used here
                _, res = pool.local.expand(prefix, [Fin(0)])
                if res[0].files and "thread.pcf" in res[0].files:
                    pcf = pv.parse_pcf(res[0].files["thread.pcf"])
                    for ty in g.types:
                        if ty >= 100:
                            continue    # user mark types are labelled with the user's title, no mode suffix
                        lab = pcf.get(ty, ("", {}))[0]
                        shown = RUN if lab.endswith("RUNNING thread") else ACT if lab.endswith("ACTIVE thread") else ANY
                        if ty in pcf and shown != MODE[ty]:
                            mode_notes.append("type %d: .pcf says %s, table says %s" % (ty, shown, MODE[ty]))
                # binding: a few complete histories through the real binary
                if not ctx.nviol:
                    k0 = sorted(g.events)[0]
                    evs = list(g.events.items())
                    cases = []
                    t0, t1 = layout.tnames[0], layout.tnames[1]
                    x0 = Ev(sidx[t0], "OHx", i32(0, 101) + i64(0))
                    x1 = Ev(sidx[t1], "OHx", i32(-1, 102) + i64(0))
                    for key, (mcv, pf, ops) in evs:
                        cases.append(prefix + [x0, Ev(sidx[t0], mcv, pf(0)), Ev(sidx[t0], "OHp"), x1, Ev(sidx[t1], mcv, pf(1)),
                                               Ev(sidx[t0], "OHr"), Ev(sidx[t0], "OAs", i32(-1))])
                    binding_cases(ctx, build, system, pool, cases, g.name, emu_flags=())
                    bind_shallow(ctx, build, system, pool, ex, g.name + "-shallow", emu_flags=(), limit=(150 if tier == "quick" else 1000))
                ctx.sample({"group": g.name, "types": g.types, "states": st["states"], "probes": st["probes"],
                            "example": short_hist(prefix + [Ev(sidx[layout.tnames[0]], "OHx", i32(0, 101) + i64(0))])})
            finally:
                pool.close()
        if mode_notes:
            ctx.part("tracking-mode-labels", notes=mode_notes)
            for n in mode_notes:
                ctx.violation("tracking mode documented in thread.pcf differs from the reference table: " + n,
                              {"engine": "E3", "check": "pcf-mode", "note": n}, {"kind": "pcf-mode", "note": n})
        ctx.cov["rule"] = ("per quantity group: product of the TLC thread/CPU graph (2 threads, physical CPUs + virtual CPU) and the "
                           "value state of both threads; every thread/affinity event and every value event (clock step 1 and 0) probed in "
                           "every state; thread and CPU rows of the group's Paraver types compared after every accepted event")
        ctx.cov["distinct_nontrivial"] = ctx.cov["states"]
        ctx.assumptions += ["tracking modes per DESIGN.md A.3 (cross-checked against the .pcf type labels)",
                            "acceptance of value events is C08's subject (soft here); numeric task id / type gid / rank values are learned from the thread row and then required everywhere",
                            "two model threads, value depth <= 1 (2 for nosv-subsystem and mpi-function in the thorough tier)"]
        from checks import soak
        if not ctx.out_of_time(0.9):
            soak.run_for(ctx, build, scratch, "C06", tier)
        return ctx.finish()
    finally:
        scratch.cleanup()
