"""C17: the mark API end to end.
 (1) runtime: every program of <= 3 mark operations through the real libovni: abort iff a
     documented reason applies; otherwise stream.json carries exactly the definitions and the
     stream exactly the mark events.
 (2) emulator: every pair of per-thread definitions of one mark type (title / channel type /
     labels): refused iff they conflict; for every consistent pair an explicit-state walk of
     push/pop/set events of two threads with state changes: verdict (mismatched pop, wrong
     channel kind, undefined type, zero value) and thread/CPU rows type 100+t; merged labels in the .pcf.
"""
import os, json, itertools, subprocess, shutil
from lib.common import Ctx, Build, Scratch, InfraError, pmap, plan_of
from lib import emusrv, obs, pv
from lib.emusrv import Ev, Fin, i32, i64
from lib.explore import ServerPool, Explorer, Ref, short_hist, bind_shallow
from checks.c08 import PrefixPool, PrefixRefused, report_prefix
from checks.threadcpu import ACTIVE


# ---------------------------------------------------------------------------
# (1) runtime side
# ---------------------------------------------------------------------------
def rt_reference(prog):
    """-> ('abort', reason) or ('ok', marks dict as in stream.json, [events])"""
    marks = {}
    evs = []
    for op in prog:
        k = op[0]
        if k in "TL":
            t, v, s = op[1:].split(",", 2)
            t, v = int(t), int(v)
            if k == "T":
                if not (0 <= t < 100):
                    return ("abort", "type out of range")
                if s == "":
                    return ("abort", "bad title")
                if str(t) in marks:
                    return ("abort", "type already defined")
                marks[str(t)] = {"title": s, "chan_type": "stack" if v else "single"}
            else:
                if not (0 <= t < 100):
                    return ("abort", "type out of range")
                if v <= 0:
                    return ("abort", "value must be > 0")
                if s == "":
                    return ("abort", "bad label")
                if str(t) not in marks:
                    return ("abort", "type not defined")
                lab = marks[str(t)].setdefault("labels", {})
                if str(v) in lab:
                    return ("abort", "label already defined")
                lab[str(v)] = s
        elif k in "POS":
            t, v = op[1:].split(",")
            t, v = int(t), int(v)
            if v == 0:
                return ("abort", "value cannot be 0")
            evs.append(({"P": "OM[", "O": "OM]", "S": "OM="}[k], v, t))
    return ("ok", marks, evs)


def run_runtime(ctx, build, scratch, tier):
    exe = build.harness("san", "mark_driver", ["mark_driver.c"])
    defs = ["T0,1,a", "T0,0,a", "T0,1,b", "T1,0,a", "L0,1,x", "L0,1,y", "L0,2,x", "L1,1,x", "L0,0,x", "T100,0,a", "L0,-1,x"]
    # (only zero is a forbidden value: negative ones are legal)
    evs = ["P0,1", "P0,2", "O0,1", "S0,1", "S1,2", "P0,0", "O1,0", "S0,0", "P5,1", "P0,-1", "S1,-2"]
    alpha = defs + evs
    depth = 3 if tier == "quick" else 4
    progs = [list(p) for d in range(0, depth + 1) for p in itertools.product(alpha, repeat=d)]
    if tier != "quick":
        progs = [p for p in progs if len(p) < 4 or p[0][0] == "T"]
    base = scratch.sub("rt")

    def one(prog):
        td = os.path.join(base, "w%d" % os.getpid())
        shutil.rmtree(td, ignore_errors=True)
        r = subprocess.run([exe, td, "100", "101", "0"] + prog, stdout=subprocess.PIPE, stderr=subprocess.PIPE,
                           env=dict(os.environ, ASAN_OPTIONS="detect_leaks=0:exitcode=99"))
        ref = rt_reference(prog)
        if r.returncode not in (0, 42):
            return "driver died with %d: %s" % (r.returncode, r.stderr.decode()[-200:])
        if ref[0] == "abort":
            if r.returncode != 42:
                return "the runtime accepted a program it must refuse (%s)" % ref[1]
            if not r.stderr.strip():
                return "aborted without a diagnostic"
            return None
        if r.returncode == 42:
            return "the runtime aborted a legal program: %s" % r.stderr.decode()[-160:]
        sp = os.path.join(td, "loom.L", "proc.100", "thread.101")
        meta = json.load(open(os.path.join(sp, "stream.json")))
        got = meta.get("ovni", {}).get("mark", {})
        if got != ref[1]:
            return "stream.json has marks %r, the program defined %r" % (got, ref[1])
        es = [e for e in obs.parse(open(os.path.join(sp, "stream.obs"), "rb").read()) if e.mcv.startswith("OM")]
        got_e = [(e.mcv,) + tuple(__import__("struct").unpack("<qi", e.payload)) for e in es]
        if got_e != ref[2]:
            return "stream has mark events %r, the program emitted %r" % (got_e, ref[2])
        return None
    nab = 0
    for prog, msg in zip(progs, pmap(one, progs)):
        ctx.add(evaluations=1, transitions=len(prog))
        if rt_reference(prog)[0] == "abort":
            nab += 1
        if msg:
            ctx.violation("mark program %s: %s" % (prog, msg), {"engine": "E1 mark_driver", "program": prog}, {"kind": "runtime"})
    ctx.add(states=len(progs))
    ctx.part("runtime", programs=len(progs), depth=depth, alphabet=alpha, must_abort=nab)


# ---------------------------------------------------------------------------
# (2) emulator side
# ---------------------------------------------------------------------------
DEFS = [None] + [{"title": ti, "chan_type": ct, **({"labels": lb} if lb is not None else {})}
                 for (ti, ct) in (("a", "stack"), ("a", "single"), ("b", "stack"))
                 for lb in (None, {"1": "x"}, {"1": "y"}, {"2": "x"}, {"1": "xy"})]     # "x" is a proper prefix of "xy": still a conflict
# mark values are 64-bit: a label registered for 2^32+1 is not a label for 1 (and does not clash with one)
DEFS += [{"title": "a", "chan_type": "stack", "labels": {"1": "x", "4294967297": "big"}}, {"title": "a", "chan_type": "stack", "labels": {"4294967297": "big"}}]
# ... up to the largest value there is
DEFS += [{"title": "a", "chan_type": "stack", "labels": {"1": "x", "9223372036854775807": "max"}}]


def conflict(a, b):
    if a is None or b is None:
        return False
    if a["title"] != b["title"] or a["chan_type"] != b["chan_type"]:
        return True
    la, lb = a.get("labels", {}), b.get("labels", {})
    return any(k in lb and lb[k] != v for k, v in la.items())


BIG = 2 ** 32


class MarkRef(Ref):
    def __init__(self, sidx, kind, defined1):
        self.sidx, self.kind, self.defined1 = sidx, kind, defined1
        self.spec = None
        self._alpha = None
        self.cpu_row_b = 2          # CPU row of thread B (3: the virtual CPU of the loom)

    def init(self):
        # (state of thread A, stack/value of A, of B)
        return ("running", (), ())

    def alphabet(self, s):
        if self._alpha is None:
            out = []
            for k in (0, 1):
                for mcv, o in (("OM[", "P"), ("OM]", "O"), ("OM=", "S")):
                    # BIG+1 and 1 (BIG and 0) agree in their low 32 bits: the value is 64 bits wide end to end
                    for v in (1, BIG + 1, 0, BIG):
                        out.append(((o, k, 0, v), Ev(self.sidx[k], mcv, i64(v) + i32(0))))
                    out.append(((o, k, 1, 1), Ev(self.sidx[k], mcv, i64(1) + i32(1))))
                    out.append(((o, k, 7, 1), Ev(self.sidx[k], mcv, i64(1) + i32(7))))
                    # undefined types that are the Paraver type numbers (100 + t) of the defined ones
                    out.append(((o, k, 100, 1), Ev(self.sidx[k], mcv, i64(1) + i32(100))))
                    out.append(((o, k, 101, 1), Ev(self.sidx[k], mcv, i64(1) + i32(101))))
            for op in "prcw":
                out.append((("H", op), Ev(self.sidx[0], "OH" + op)))
            self._alpha = out
        return self._alpha

    def step(self, s, label):
        st, a, b = s
        if label[0] == "H":
            nxt = {("running", "p"): "paused", ("running", "c"): "cooling", ("cooling", "p"): "paused", ("paused", "r"): "running",
                   ("paused", "w"): "warming", ("warming", "r"): "running"}.get((st, label[1]))
            if nxt is None:
                return ("fail", None, "illegal thread transition")
            return ("ok", (nxt, a, b), "thread state change")
        o, k, t, v = label
        if t in (7, 100, 101) or (t == 1 and not self.defined1):
            return ("fail", None, "mark type not defined by any thread")
        if v == 0:
            return ("fail", None, "zero value")
        if t == 1:
            # the second type is 'single': only set is legal; its value is not tracked here
            return ("ok" if o == "S" else "fail", None if o == "S" else None, "type 1 is single")
        cur = list((a, b)[k])
        if self.kind == "stack":
            if o == "S":
                return ("fail", None, "set on a stack type")
            if o == "P":
                if len(cur) >= 3:
                    return ("ok", None, "push (beyond explored depth)")
                cur.append(v)
            else:
                if not cur or cur[-1] != v:
                    return ("fail", None, "pop does not match the top")
                cur.pop()
        else:
            if o != "S":
                return ("fail", None, "push/pop on a single type")
            cur = [v]
        t2 = tuple(cur)
        return ("ok", (st, t2, b) if k == 0 else (st, a, t2), "mark event")

    def display(self, s):
        st, a, b = s
        d = {}
        va = a[-1] if a else 0
        vb = b[-1] if b else 0
        d[("thread", 1, 100)] = va if st in ACTIVE else 0
        d[("thread", 2, 100)] = vb
        d[("cpu", 1, 100)] = va if st == "running" else 0
        d[("cpu", self.cpu_row_b, 100)] = vb
        if self.cpu_row_b != 2:
            d[("cpu", 2, 100)] = 0
        return d

    def attribute(self, kind, label):
        return "C17"


def run_emulator(ctx, build, scratch, tier):
    exe = build.harness("plain", "emu_server", ["emu_server.c"])
    emu = build.tool("plain", "ovniemu")
    spec = [{"name": "L", "cpus": [(0, 0), (1, 1)], "procs": [{"pid": 100, "threads": [101]}, {"pid": 200, "threads": [201]}]}]
    relA, relB = "loom.L/proc.100/thread.101", "loom.L/proc.200/thread.201"
    pairs = list(itertools.product(range(len(DEFS)), repeat=2))
    base = scratch.sub("emu")
    X = [Ev(0, "OHx", i32(0, 101) + i64(0)), Ev(1, "OHx", i32(1, 201) + i64(0))]
    E = [Ev(0, "OHe"), Ev(1, "OHe")]

    def meta_for(da, db):
        em = {}
        if da is not None:
            em[relA] = {"ovni": {"mark": {"0": da}}}
        if db is not None:
            em[relB] = {"ovni": {"mark": {"0": db, "1": {"title": "second", "chan_type": "single"}}}}
        return em

    def one(ij):
        da, db = DEFS[ij[0]], DEFS[ij[1]]
        td = os.path.join(base, "w%d" % os.getpid())
        system = emusrv.System(spec, extra_meta=meta_for(da, db))
        emusrv.materialise(system, td, X + E, {0: relA, 1: relB})
        rc, out, err = emusrv.run_tool(emu, ["-l", td])
        pcf = None
        if rc == 0:
            pcf = {n: pv.parse_pcf(open(os.path.join(td, n + ".pcf")).read()) for n in ("thread", "cpu")}
        e = [l for l in err.split("\n") if "ERROR" in l][:1]
        return rc, pcf, (e[0] if e else "")
    consistent = []
    for ij, (rc, pcf, msg) in zip(pairs, pmap(one, pairs)):
        da, db = DEFS[ij[0]], DEFS[ij[1]]
        ctx.add(evaluations=1, transitions=1, traces_validated_against_impl=1)
        rep = {"engine": "real ovniemu", "defs_thread_A": da, "defs_thread_B": db}
        if rc not in (0, 1):
            ctx.violation("definitions %r / %r: ovniemu died (exit %r)" % (da, db, rc), rep, {"kind": "crash"})
            continue
        if conflict(da, db):
            if rc == 0:
                ctx.violation("conflicting mark definitions accepted: %r vs %r" % (da, db), rep, {"kind": "conflict-accepted"})
            continue
        if rc != 0:
            ctx.violation("agreeing mark definitions refused: %r vs %r: %s" % (da, db, msg), rep, {"kind": "merge-refused"})
            continue
        # merged title and labels under type 100 in both .pcf files
        d0 = da or db
        if d0 is not None:
            want = {}
            for d in (da, db):
                if d:
                    for k, v in d.get("labels", {}).items():
                        want[int(k)] = v
            for n in ("thread", "cpu"):
                got = pcf[n].get(100)
                if got is None or got[0].strip() != d0["title"] or {k: v for k, v in got[1].items()} != want:
                    ctx.violation("%s.pcf type 100 is %r, expected title %r and labels %r (definitions %r / %r)" % (n, got, d0["title"], want, da, db),
                                  rep, {"kind": "pcf-merge"})
                    break
            consistent.append(ij)
    ctx.part("definition-pairs", pairs=len(pairs), consistent=len(consistent))
    # walks: one per channel kind and per "who defines" pattern
    picks = []
    for kind in ("stack", "single"):
        for who in ("A", "B", "both"):
            for ij in consistent:
                da, db = DEFS[ij[0]], DEFS[ij[1]]
                d0 = da or db
                if d0 is None or d0["chan_type"] != kind:
                    continue
                if (who == "A" and da and not db) or (who == "B" and db and not da) or (who == "both" and da and db):
                    picks.append((kind, who, da, db))
                    break
    if tier == "quick":
        picks = [p for p in picks if p[1] != "A"] [:3]
    # the same walks with the second thread on the virtual CPU of the loom (the only thread there: the row shows its marks)
    picks = [p + (False,) for p in picks] + [p + (True,) for p in picks if p[1] == "both"][:(1 if tier == "quick" else 2)]
    for (kind, who, da, db, onv) in picks:
        if ctx.out_of_time(0.85):
            ctx.cap("walk %s/%s not started" % (kind, who))
            continue
        system = emusrv.System(spec, extra_meta=meta_for(da, db))
        td = system.write(scratch.sub("walk-%s-%s" % (kind, who)))
        pool = ServerPool(exe, td, ["-l"])
        pool.meta = system.meta if "system" in dir() else None
        try:
            s = pool.local.streams
            sidx = [s[relA], s[relB]]
            prefix = [Ev(sidx[0], "OHx", i32(0, 101) + i64(0)), Ev(sidx[1], "OHx", i32(-1 if onv else 1, 201) + i64(0))]
            if onv:
                who = who + "-vcpu"
            try:
                pp = PrefixPool(pool, prefix)
            except PrefixRefused as e:
                report_prefix(ctx, e, "walk-%s-%s" % (kind, who), pool.flags, spec)
                continue
            ref = MarkRef(sidx, kind, defined1=(db is not None))
            ref.cpu_row_b = 3 if onv else 2
            ref.spec = {"spec": spec, "marks_A": da, "marks_B": db}
            ex = Explorer(ctx, pp, ref, name="walk-%s-%s" % (kind, who), report_props={"C17"}, check_time=False,
                          max_depth=(4 if tier == "quick" else (8 if tier == "deep" else 6)), max_states=(3000 if tier == "quick" else (400000 if tier == "deep" else 40000)))
            st = ex.run()
            if not ctx.nviol:
                bind_shallow(ctx, build, system, pool, ex, "walk-%s-%s" % (kind, who), emu_flags=(), limit=(100 if tier == "quick" else 600))
            ctx.sample({"walk": "%s/%s" % (kind, who), "states": st["states"], "probes": st["probes"]})
        finally:
            pool.close()


def run(prop, tier):
    ctx = Ctx("C17", tier, "model_checking")
    tier = plan_of("C17", tier)
    ctx.cov["plan"] = tier
    scratch = Scratch("C17")
    try:
        build = Build()
        run_runtime(ctx, build, scratch, tier)
        run_emulator(ctx, build, scratch, tier)
        ctx.cov["rule"] = ("(1) every program of <= 3/4 operations over 11 definition and 9 event operations of the mark API through the real libovni: abort iff a "
                           "documented reason applies, else metadata and stream compared with the reference; (2) all 324 pairs of per-thread definitions of one "
                           "type through the real ovniemu (refused iff title/channel type/label conflict; labels merged in both .pcf); (3) explicit-state walks of "
                           "push/pop/set (values 0, 1, 2^32, 2^32+1; defined, second and undefined type) on two threads with pause/cool/warm/resume: verdict and rows type 100")
        ctx.cov["distinct_nontrivial"] = ctx.cov["states"]
        ctx.assumptions += ["documented refusal reasons from doc/user/runtime/mark.md and the API comments", "walk depth 4/6, stack depth <= 3"]
        from checks import soak
        if not ctx.out_of_time(0.9):
            soak.run_for(ctx, build, scratch, "C17", tier)
        return ctx.finish()
    finally:
        scratch.cleanup()
